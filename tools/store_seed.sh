#!/bin/bash
# usage: tools/store_seed.sh <id> <validate log>   copies /tmp/seed/<id>/_seed into /verif/seeded/<id> with the validation record
id=$1; log=$2
head=$(git -C /repo rev-parse --short HEAD)
mkdir -p /verif/seeded/$id; cp /tmp/seed/$id/_seed/patch.diff /verif/seeded/$id/; for f in /tmp/seed/$id/_seed/*; do case $(basename $f) in meta.json|*.log|*.out) ;; *) [ -f $f ] && cp $f /verif/seeded/$id/;; esac; done
res=$(grep "^id=$id " $log | tail -1 | sed "s/^id=$id //")
python3 - "$id" "$head" "$res" <<'PY'
import json,sys
id,head,res=sys.argv[1:4]
try: m=json.load(open(f'/tmp/seed/{id}/_seed/meta.json'))
except Exception as e: m={"note":"agent meta.json unreadable: %s"%e}
m["seed_id"]=id
m["verified_by_main"]={"repo_head":head,"how":"/tmp/seedv/validate.sh: fresh worktree of /repo HEAD, git apply patch.diff, cargo build, cargo test --offline (whole suite), demo with the change, git apply -R, demo without","result":res}
json.dump(m,open(f'/verif/seeded/{id}/meta.json','w'),indent=1,ensure_ascii=False)
PY
