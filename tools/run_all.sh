#!/bin/bash
# usage: tools/run_all.sh quick|thorough  -> one line per check, log in target/run_all_<tier>.log
tier=${1:-quick}
cd "$(dirname "$0")/.."
mkdir -p target; : > target/run_all_$tier.log
for i in 01 02 03 04 05 06 07 08 09 10 11 12 13 14 15 16 17 18 19 20; do
  s=$(date +%s)
  timeout 7200 ./check C$i --tier $tier > target/last_C$i.$tier.log 2>&1; code=$?
  e=$(( $(date +%s) - s ))
  echo "C$i tier=$tier exit=$code wall=${e}s :: $(tail -1 target/last_C$i.$tier.log | cut -c1-200)" | tee -a target/run_all_$tier.log
done
