#!/bin/bash
# usage: tools/seedrun.sh <seed id> <check id> [tier]
# applies /verif/seeded/<seed>/patch.diff to /repo, runs the check, reverts /repo. Evidence
# files are saved and restored so that a seeded run never ends up committed.
seed=$1; chk=$2; tier=${3:-quick}
cd /verif || exit 2
if [ -n "$(git -C /repo status --porcelain --untracked-files=no)" ]; then echo "repo not clean"; exit 2; fi
cp evidence/$chk.json /tmp/ev_$chk.json 2>/dev/null
git -C /repo apply /verif/seeded/$seed/patch.diff || { echo "patch does not apply"; exit 2; }
timeout 1800 ./check $chk --tier $tier > target/seedrun_${seed}_${chk}.log 2>&1
code=$?
git -C /repo checkout -- .
cp /tmp/ev_$chk.json evidence/$chk.json 2>/dev/null
nv=$(grep -c '^VIOLATION' target/seedrun_${seed}_${chk}.log)
echo "seed=$seed check=$chk tier=$tier exit=$code violation_lines=$nv :: $(grep -m1 -A1 '^VIOLATION' target/seedrun_${seed}_${chk}.log | tail -1 | cut -c1-220)"
