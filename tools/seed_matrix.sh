#!/bin/bash
# runs every seed in /verif/seeded against the check of its own property (quick tier); log: target/seed_matrix.log
cd /verif
: > target/seed_matrix.log
for d in seeded/C*; do
  s=$(basename $d); c=${s:0:3}
  tools/seedrun.sh $s $c ${1:-quick} 2>&1 | tail -1 | cut -c1-260 >> target/seed_matrix.log
done
echo ALLDONE >> target/seed_matrix.log
