#!/usr/bin/env python3
"""Regenerates /verif/MANIFEST.json from the table below (one row per claimed property)."""
import json, subprocess
CHECKS = {
 "C15": ("A", "bounded-exhaustive enumeration of alias sets x rule lists x word space against a reference romaniser; deromaniser encodings compared through run()",
         "Every one-line romaniser over 8 input kinds x 5-7 replacement kinds (thorough: 1.4 k ordered two-line sets and their comma-list forms) x 5 rule lists x every word of W(I5,3) with and without stress: the printed word (through run() and through the renderer alone) must equal the default rendering of the structural result rewritten by a 40-line reference romaniser written from the manual; six deromanisers (single segment, long, stressed, sequences, multi-segment with a long non-final segment) on W(I5,4): run(R, encode(w), into=D) == run(R, w).",
         "`+` only on base phones; no tone-matching aliases (the manual leaves the tones of unmatched syllables undefined). Reference romaniser trusted.", "DESIGN.md §5 C15"),
 "C17": ("A", "exhaustive fault injection: every fault of a catalogue planted at every (group, line) position of every base project in three ways; oracle: formatter output parsed for location, quoted line and caret span",
         "53 rule faults covering 44 RuleSyntaxError / RuleRuntimeError variants x every line position of 3 base projects (with blank, whitespace-only and comment lines) x {replace, insert before, insert after}; 14 alias faults x 3 positions x both alias kinds; 8 word faults x 4 list positions. For each: run() is Err, the formatter does not panic, names the planted rule group and line (alias kind and line, word), quotes that line, and its caret line fits within the line.",
         "Observation is the formatted text with colours off (Position fields are private). DeletionOnlySeg/Syll carry no position: known finding.", "DESIGN.md §5 C17"),
 "C19": ("C", "exhaustive enumeration of generated project trees and of .rsca line-kind sequences; the real `asca` binary run in fresh directories; files compared with the library and with the project model",
         "Every project of the bounded shape x 4 (16) documented .rsca layouts: `asca run -o` output == asca::run on the model; `conv asca` JSON == model; json -> `conv json` -> files -> `conv asca` == json; running the converted files == library. Every sequence of <= 4 (6) line kinds {@name, #desc, blank, rule, indented rule} as an .rsca file: conv asca . conv json . conv asca == conv asca, and agreement with the manual's reading on documented layouts. 6.6 k CLI processes in the quick tier.",
         "The binary is built from the working tree without the verif feature. Output paths are always fresh (an existing output file makes the CLI prompt on stdin). 20 s timeout per process.", "DESIGN.md §5 C19"),
 "C20": ("C", "exhaustive enumeration of seq configs (all % reference graphs incl. cycles, filters, word-file placements, declaration orders) x the real `asca seq` / `conv tag` binary against a stage-by-stage reference composition",
         "All configs with 1-2 tags and one entry (thorough: 3 tags, 2 entries, strided): every from-reference choice (chains, forks, forward references, self-loops, cycles), root word lists, extra words on pipeline tags, 8 file/filter combinations with case-varied names, optional deromaniser alias, forward and reverse declaration order. Valid configs: the file under out/<tag>/ equals asca::run composed per the config by a reference using the harness's own file readers; each tag run alone (cold cache) writes the same file; `conv tag -r` exports the concatenated history, which reproduces the words through the library. Cyclic configs: rejected, no output, within the timeout.",
         "Comparison is on the sequence of non-blank lines (seq inserts blank separators between word sources). The thorough box is strided above 6000 configs per tag count; the quick box is complete.", "DESIGN.md §5 C20"),
 "C12": ("A", "bounded-exhaustive enumeration of shorthand/expansion rule pairs x word space; oracle: structural equality of the two runs of the real interpreter",
         "26 k mechanically produced pairs: every condensed rule over small input/output/environment pools vs its sub-rules on consecutive lines; `_,X` for every X of <= 2 (3) items vs `X_, _mirror(X)`; every group letter vs the manual's matrix in input, context, exception, structure, set and romaniser on every segment of the IPA table; every optional `(X,M:N)`, `(X)`, `(X,N)`, `(X,0)` for 8 contents, 0<=M<=N<=3, both sides of `_`, 6 continuations, context and exception, vs the environment set of explicit repetitions; `A B > &` vs `A=1 B=2 > 2 1`; each pair on every word of W(I4,4) (thorough W(I4,5)): 60 M comparisons.",
         "The expansion is produced by the harness from the manual's definitions; group matrices are frozen in the harness. `A B > &` vs variables is only claimed for words without long segments.", "DESIGN.md §5 C12"),
 "C13": ("A", "exhaustive application of every documented respelling operator (one occurrence at a time and all at once) to every rule of the grammar and to a frozen synonym table; oracle: equal results or same error variant through run()",
         "Every rule of rulegen(3) (thorough: plus the frozen rule corpus) is respelled with each operator at each occurrence and at all occurrences (arrows, `|`/`//`, `*`/`∅`, ellipsis forms, angle brackets, spaces inside matrices, trailing comments, alpha renaming, variable renumbering) and compared on 10 words; all 177 feature spellings of the frozen synonym table are substituted into 14+ rule templates covering every matrix position and into romaniser and deromaniser templates, on every third (thorough: every) segment of the IPA table; 40 word respelling pairs (stress, length, `;`, doubling, `^`, the 20 input aliases) under 6 rule lists. 5.6 M comparisons.",
         "Synonym table frozen in fixtures/feature_synonyms.json (not read from the tree under test). Rules whose own run crashes (C02) are skipped and counted. `tone:NN` is not spaced out.", "DESIGN.md §5 C13"),
 "C01": ("C", "exhaustive exploration of the environment nondeterminism (HashMap iteration order of the IPA table) through a harness-owned seam, one fresh process per order class, plus in-process call histories",
         "The only nondeterminism in the crate is the iteration order of the std HashMap behind the IPA table. The verif seam lets the harness choose that order; 367 orders (sorted, reversed, each grapheme first) provably produce every outcome any of the 365! orders can (DESIGN §5 C01). Each runs in a fresh process and renders every bundle of base + <= 1 (2) diacritics and every single-feature change, normally and through the `+` romaniser path, plus a corpus of run() calls; all observations must be identical. 16 further processes leave the order to the real hash seed (replay check for maps the seam does not own). In-process: every call repeated, interleaved with every other call, every permutation of word lists.",
         "The reduction argument affects completeness only. The 16 unseeded processes are a replay check, not exhaustive. Trusts that no other source of nondeterminism (clocks, randomness, threads) exists in the crate: none is imported.", "DESIGN.md §5 C01"),
 "C14": ("A", "bounded-exhaustive enumeration of rules classified segment-only / prosody-only x every environment of the full environment alphabet x decorated word space; oracle: the untouched tier is unchanged",
         "74 k (quick) rules: every 1- and 2-element segment-only substitution over 9 input and 6 output items and 20 prosody-only rules (stress/tone setters on % and segments, boundary deletion, insertion and metathesis), each with no environment and with every context and exception over a 22-item alphabet (optionals, ellipsis, %, structures, sets, variables, #), applied to every decorated word of W(I4,3) (thorough W(I4,4), two items per environment): 43 M applications, tier invariants checked on every Ok result.",
         "No model needed: the oracle projects the result onto the tier the rule class must not touch. Bounded by the item alphabets and word space.", "DESIGN.md §5 C14"),
 "C10": ("B+A", "explicit-state BFS over rule histories with the staged-vs-one-shot law checked on every edge through the public API; exhaustive regrouping of every short history; every split point of the shipped example projects",
         "For every state of the BFS over the 66-rule alphabet (reached by its shortest history) and every further rule, run(h.r)(w) is compared with run(r)(render(run(h)(w))); by induction over the BFS tree this covers every split point of every explored history. Every history of 2 (3) rules is run in every grouping into rule groups with an empty group at every position. The germanic and indo-iranian example projects (frozen and live copies, with the pie.alias deromaniser) are split at every rule-group boundary for every word.",
         "Through asca::run only (text in, text out). Cases whose intermediate rendering contains � or whose prefix errors are skipped and counted. The americanist flag is a known finding confined to its own box of seeds.", "DESIGN.md §5 C10"),
 "C11": ("A", "exhaustive enumeration of ordered word lists (all lists of <= 3 pool words, hence all permutations and sublists) and multi-word lines x rule lists; oracle: element-wise agreement with single-word runs",
         "Every ordered list of 1..3 words of a 10-word pool (including words that fail at parse and words that fail at apply) and every line of two or three words, under every rule (thorough: every ordered pair of rules) of a 40-rule pool: the list result must equal the single-word results in order, a line the single results joined by one space, a failing list the error of its first failing word.",
         "Public API only. Lists mixing parse-phase and apply-phase failures only have to fail. Bounded by the pools.", "DESIGN.md §5 C11"),
 "C16": ("A", "exhaustive enumeration of rule-group lists x phrases; trace_changes / get_trace_string / run compared with a structural reference that applies the groups one by one",
         "Every list of 1..2 (3) single-rule groups over a 24-rule pool, lists with two-rule groups, empty and comment-only groups, on 9 phrases of one and two words: reported indices strictly increasing and exactly the groups that change the phrase, each reported state equal to the structural application of groups 0..i, last state rendering equal to run, Err iff run is Err, printed trace equal to the same sequence.",
         "Reference = verif::apply_group group by group (same interpreter, different driver loop): the property is about the trace loop in lib.rs, not the interpreter. Bounded by the pools.", "DESIGN.md §5 C16"),
 "C02": ("A", "bounded-exhaustive enumeration of four input families (full rule grammar, distance-1 token mutations of a rule corpus, all short strings over a noise alphabet, numeric literals) under a deterministic step budget; every case through compile, Rule::apply, run, trace_changes and get_trace_string",
         "Every rule of rulegen(3) (thorough: rulegen(4), 106 M calls) x hand-shaped words, every multi-element substitution over length/set/variable items, every rule at token-edit distance 1 from a frozen corpus, every string of <= 3 (4) characters over 48 characters as rule, word and both alias kinds, and over-large numerals in every numeric position are run under a tick budget that turns a non-advancing loop into a located failure. The pinned tree has many genuine C02 defects; they are listed in known_findings.json by call site (panics) or rule shape (hangs) so that any new crash class is a violation.",
         "A hang is decided by a step budget (2000 + 20(|w|+1)(|r|+1) loop iterations; terminating cases in the boxes use < 5% of it), not by a clock. Stack overflow or allocation failure would abort the check rather than pass. Known hang classes are identified by rule shape, so a new hang inside an already listed shape class is not distinguished.", "DESIGN.md §5 C02"),
 "C07": ("A", "bounded-exhaustive enumeration of identity rules (variables, alphas) x decorated word space; oracle: structural identity, and a reference for `A > B / X=1 _ 1`",
         "All `X1=1..Xk=k > 1..k` rules for k <= 2 (thorough 3) over 8 bindable element kinds with every one-item-per-side environment, all feature / node / length / stress alpha identities, applied to every decorated word of W(I4,3) (thorough W(I4,4)) and to every segment of the universe; plus the variable-in-context law against a reference. 9 M applications in the quick tier, all enumerated.",
         "Identity needs no model. The (c) reference skips words with long segments (identity of neighbours is then ambiguous).", "DESIGN.md §5 C07"),
 "C08": ("B", "explicit-state breadth-first reachability over structural words with the real Rule::apply as transition function; invariant checked on every reachable state",
         "BFS from 12 seed words over a 66-rule alphabet that covers every structure-changing path (depth 2 quick, 4 thorough), plus every rule of rulegen(3) from the seeds and rulegen(2) chained to depth 3; states are full structural words (no abstraction), deduplicated; the well-formedness invariant of the property is evaluated on every state; counterexamples are shortest rule sequences, replayable.",
         "Bounded by the rule alphabets, the depth and the size constraint (<= 12 segments, <= 8 syllables are expanded). Err successors are not states.", "DESIGN.md §5 C08"),
 "C09": ("A+B", "exhaustive enumeration of the segment space (base + <= 2 diacritics, single feature changes), all ordered phone pairs, bounded word shapes, and all BFS-reachable words; oracle: parse(render(w)) == w and fixed point of run([])",
         "Every feature bundle the parser accepts for base + <= 1 (thorough 2) diacritics and every single feature/node change of those, every ordered pair of base phones in one syllable and across a boundary, every word shape <= 3 (4) segments over a 4-phone inventory with all length/stress/tone/boundary patterns, and every state of the C08 BFS are rendered and re-parsed. Remaining genuine failures are listed bundle-exact / pair-exact in known_findings/, so any new bundle is a violation.",
         "Renderings containing � are outside the property (counted). Bounded by 2 diacritics and the word-shape box.", "DESIGN.md §5 C09"),
 "C06": ("A", "bounded-exhaustive enumeration of the full rule grammar (rulegen(n)) with a planted unmatchable literal x word set; oracle: structural identity whenever the call returns Ok",
         "Every rule with <= 3 items (thorough: <= 4, cursor-logic constructs) of a finite grammar covering sets, optionals, ellipses, structures, variables, alphas, environment sets, the special environment and condensed rules gets a mandatory /ɮ/ planted in every input alternative (insertion: every context), at the start and at the end, and is applied by the real interpreter to every word of a hand-shaped set (thorough: plus all decorated words of W(I4,3)); 3.1 M (quick) applications, all enumerated. The oracle needs no model: a rule that cannot match must return the word bit-identical.",
         "Bounded by the item alphabets of harness/src/rulegen.rs and rules of <= 4 items. Err results are not violations of this property (panics/hangs are C02's).", "DESIGN.md §5 C06"),
 "C03": ("A", "bounded-exhaustive enumeration of a rule fragment x word space against a reference interpreter (stateless exploration of the real parser + Rule::apply)",
         "Every rule of the basic fragment over a fixed item alphabet (quick: 10 619 rules with one environment item per side, as context and as exception; thorough: two items per side, context x exception, environment sets of two, 0.3 M rules) is run on every word of W(I4,4) / W(I3,5) / W(I4,5) in every syllabification and compared structurally with an independent 150-line reference interpreter written from the manual. No sampling: boxes are completed or the run fails.",
         "Trusts harness/src/refint.rs. Bounded by the item alphabet (9 segment items, $, #), <= 2 items per side, words <= 5 segments over 3-4 phones; the window argument of DESIGN §6 explains why this exhibits every neighbourhood. Cases with equal adjacent segments inside a syllable are skipped as the property says.", "DESIGN.md §5 C03"),
 "C05": ("A", "exhaustive enumeration of the state x modifier x element-kind x role x position table against a table model",
         "All 36 suprasegmental states x all 404 non-empty modifier combinations x 4 element kinds x {input modifier, output matrix} x 3 positions of the target in its syllable (271 296 cases) run through the real parser and interpreter and are judged by a table model with accept-sets where the manual only constrains. The space named by the property is finite and fully covered.",
         "Trusts the 40-line table in harness/src/props/c05.rs (from doc.md §Stress/§Length/§Tone). Context-free rules, one target per word (frame syllables are consonant-only).", "DESIGN.md §5 C05"),
 "C04": ("A", "bounded-exhaustive enumeration (all base phones [+ all base+1-diacritic bundles] x all 26 features / 5 place nodes / 26x26 alpha pairs) against a bit-level reference model",
         "The space the property names is finite: every segment of the IPA table (thorough: plus every distinct bundle the word parser accepts for base+one diacritic, ~6 k) x every single-feature / single-node matrix as output and as input probe x every ordered feature pair for alpha transfer (plain and inverted). Each case runs the real parser and Rule::apply and is compared structurally with a 60-line bit model; all cases are enumerated, none sampled.",
         "Trusts harness/src/model.rs (bit layout from the rustdoc; set/match semantics from doc.md). One-segment words only: interaction with neighbours is C03's business.", "DESIGN.md §5 C04"),
 # pid: (engine, technique, level text, level note, design ref)
 "C18": ("A", "bounded-exhaustive enumeration of the whole accessor input space + explicit-state closure of reachable Place encodings, against a reference bit model",
         "Every Some(x) place (2^16) and None x 4 sub-nodes x all in-range values, all 26 features x 2 polarities, all root/manner/laryngeal bytes are enumerated and each call is compared with an independent model of the documented bit layout; the encodings reachable from None through the setters are closed under BFS and checked for well-formedness. The space is finite and fully covered, which is the strongest statement this property admits.",
         "Trusts the harness's 20-line model of the documented layout `1111_11_11_111111_11`; out-of-range sub-node values (rejected by debug_assert) are outside the property.", "DESIGN.md §5 C18"),
}
ALL = ["C%02d" % i for i in range(1, 21)]
NA_REASON = "not claimed"
def main():
    hooks_commit = subprocess.run(["git","-C","/repo","log","--format=%H","--grep=^verif hooks"],capture_output=True,text=True).stdout.split()
    m = {
      "version": 1,
      "setup_cmd": "cd /verif/harness && CARGO_NET_OFFLINE=true CARGO_TARGET_DIR=/verif/target cargo build --release --offline && CARGO_NET_OFFLINE=true CARGO_TARGET_DIR=/verif/target/cli cargo build --release --offline --bin asca --manifest-path /repo/Cargo.toml",
      "hooks": {
        "guard": "cargo feature `verif` of the asca crate",
        "enable": "the harness depends on asca by path with features=[\"verif\"] (harness/Cargo.toml); cargo rebuilds it from /repo's working tree on every ./check",
        "baseline_off_cmd": "cd /repo && cargo test --workspace --no-fail-fast --offline",
        "source_commits": hooks_commit,
        "add_only": True,
      },
      "engines": [
        {"name": "A: product-space enumeration", "path": "harness/src/util.rs", "serves_properties": [], "kind_free_text": "bounded-exhaustive stateless exploration of the real interpreter over mixed-radix input spaces, compared case by case with reference models written from the manual"},
        {"name": "B: explicit-state BFS", "path": "harness/src/bfs.rs", "serves_properties": [], "kind_free_text": "breadth-first reachability over structural words with the real Rule::apply as transition function; invariants on every state, laws on every edge"},
        {"name": "C: environment enumeration", "path": "harness/src/cli.rs", "serves_properties": [], "kind_free_text": "every HashMap iteration order class / every project tree of a bounded shape, run through fresh processes of the real code"},
      ],
      "checks": [],
      "not_applicable": [],
      "notes": "All checks: `./check <id> --tier quick|thorough`; exit 0 held / 1 violation / 2 machinery problem. Known findings: known_findings.json.",
    }
    for pid in ALL:
        if pid in CHECKS:
            eng, tech, text, note, ref = CHECKS[pid]
            m["checks"].append({
              "property_id": pid,
              "quick_cmd": "./check %s --tier quick" % pid,
              "thorough_cmd": "./check %s --tier thorough" % pid,
              "evidence_file": "/verif/evidence/%s.json" % pid,
              "replay_cmd_template": "./check replay {path}",
              "engine": eng,
              "level_claimed": {"category": "model_checking", "text": text, "design_ref": ref},
              "level_note": note,
              "technique": tech,
            })
            for e in m["engines"]:
                if e["name"].startswith(eng[0]): e["serves_properties"].append(pid)
        else:
            m["not_applicable"].append({"property_id": pid, "reason": NA_REASON})
    json.dump(m, open("/verif/MANIFEST.json","w"), indent=1)
    print("claimed:", [c["property_id"] for c in m["checks"]])
main()
