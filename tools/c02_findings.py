#!/usr/bin/env python3
"""Rebuilds the open C02 entries of known_findings.json from the crash classes recorded by
`VERIF_DUMP=1 ./check C02` (quick) and `--tier thorough`, saved as target/C02_{quick,thorough}_evidence.json.
Run by hand after a deliberate decision that the listed classes are genuine pre-existing defects."""
import json, collections
classes = {}
for f in ['/verif/target/C02_quick_evidence.json', '/verif/target/C02_thorough_evidence.json']:
    for c in json.load(open(f))['coverage']['crash_classes']: classes.setdefault(c['class'], c['example'])
groups = collections.OrderedDict()
def add(gid, what, key): groups.setdefault(gid, {"what": what, "keys": []})["keys"].append(key)
rest = []
HANG = {"insertion": "insertion rules that never advance: an exception without a context (`* > i | _ a`), optionals / boundaries / structures in the context (`* > [+long] / (C) _ a`, `* > i / _$t` on /ka.sa.ta/), boundary or matrix outputs; the scan re-inserts at the same position for ever",
        "substitution": "substitution rules that never advance the scan: input containing `$` whose output keeps it (`$ > $`, `[] $ > ⟨ta⟩`), structure outputs followed by further output items (`a [+cons] > ⟨ta⟩ i`), `%`/structure inputs with more outputs than inputs",
        "deletion": "deletion rules whose input set contains a syllable boundary (`{$, m} > * / _#`) loop on the boundary",
        "metathesis": "metathesis rules that never advance"}
for k, ex in sorted(classes.items()):
    if k.startswith('hang|'):
        ty = k.split('|')[1]
        add("C02-hang-" + ty, HANG.get(ty, "rules that never advance") + " (identified by rule shape: type, `$`/`%`/structure/ellipsis in input and output, optional/ellipsis/boundary in the environment, context/exception)", k)
    elif 'ParseIntError' in k: add("C02-numeric-literal-overflow", "numeric literals that do not fit usize / u16 panic in `parse().unwrap()` / `expect` (e.g. rule `C=99999999999999999999 > 1`, `(C,18446744073709551616)`, alias `a:[tone:4294967296] > x`)", k)
    elif 'segments.len() - 1 - self.seg_index' in k: add("C02-insertion-exception-reversed-oob", "insertion with an exception and a boundary/structure output indexes out of bounds in SegPos::reversed (`* > ⟨ta⟩ | a _` on /pa/)", k)
    elif 'apply_seg_mods(alphas, mods, start_pos.seg_index' in k: add("C02-append-segment-with-modifiers-oob", "a segment with modifiers inserted or appended at a position past the last syllable (`* > i:[+long] / a _` on /paːt.a/, `%=1 > 1 i:[+long]`, `{p,a} > ⟨ta⟩ i:[+long]` on /a/) indexes the syllable list out of bounds in Word::apply_seg_mods", k)
    elif ('position is in bounds' in k or 'Out of bounds access' in k or 'insertion index' in k) and ('out%⟨=y' in k or 'out$=y' in k):
        add("C02-substitution-cursor-after-syllable-insert", "multi-element substitutions whose output inserts a structure / syllable / boundary before further items apply the following item at a stale position (`{p,a} > ⟨ta⟩ i:[+long]` on /a/, `a:[-long] t > ⟨ta⟩ [-place]` on /pat/, `C=1 > ⟨ta⟩ 1 $`, `V {%,C} > ⟨ta⟩ {t,i}`): index out of bounds in Word::apply_seg_mods / Syllable::apply_seg_mods / replace_segment / set substitution / total_len_change.insert", k)
    elif 'input[state_index]' in k or 'word.get_seg_at(*pos).unwrap()' in k or '(input[state_index], var)' in k: add("C02-ellipsis-input-captures-oob", "an ellipsis (or empty structure) in the input yields fewer captures than input items (`a...> eoi`, `<>:[+stress]=1...> 1 <han>`): substitution indexes the capture list out of bounds / input_match_ipa unwraps a missing segment", k)
    elif 'unreachable' in k and 'word.rs' in k: add("C02-deromaniser-syllable-boundary-unreachable", "deromaniser line `a>$` (syllable boundary as output) reaches `unreachable!()` in Word::fill_segments", k)
    elif 'unreachable' in k and 'parser.rs' in k: add("C02-parser-empty-alternative-unreachable", "a condensed rule with an empty alternative before a diacritic (`p, t, k, ,ʷ > ..`) reaches `unreachable!()` in the parser", k)
    elif 'rule.rs:match (&input[0].kind' in k: add("C02-empty-condensed-alternative-oob", "a condensed rule with an empty input/output alternative (`o, , > [+str], [-str]`) indexes an empty item list in Rule::split_into_subrules", k)
    elif 'not implemented' in k: add("C02-variable-in-structure-unimplemented", "a variable inside a structure in a context or after an ellipsis (`<...1C> > ..`) reaches `unimplemented!()`", k)
    else: rest.append((k, ex))
print("UNGROUPED (not listed; these stay violations):")
for k, ex in rest: print('  ', k[:200]); print('      ', ex[:220])
p = '/verif/known_findings.json'; d = json.load(open(p))
d['findings'] = [f for f in d['findings'] if not (f['property'] == 'C02' and f['status'] == 'open')]
for gid, g in groups.items():
    entry = {"property": "C02", "id": gid, "status": "open", "what": g["what"]}
    if len(g["keys"]) > 12:
        fn = 'known_findings/%s.json' % gid
        json.dump(sorted(g["keys"]), open('/verif/' + fn, 'w'), indent=0, ensure_ascii=False)
        entry["keys_file"] = fn; entry["keys"] = []
    else: entry["keys"] = sorted(g["keys"])
    d['findings'].append(entry); print(gid, len(g["keys"]))
json.dump(d, open(p, 'w'), indent=1, ensure_ascii=False)
