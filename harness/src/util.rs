//! Shared machinery: guarded execution (panic / budget capture), parallel exhaustive
//! enumeration, canonical structural words, evidence and findings.
use asca::verif as av;
use asca::verif::{StressKind, Syllable, Word};
use asca::Segment;
use serde_json::{json, Value};
use std::cell::RefCell;
use std::collections::{BTreeMap, BTreeSet};
use std::panic::{catch_unwind, AssertUnwindSafe};
use std::sync::atomic::{AtomicUsize, Ordering};
use std::sync::Mutex;
use std::time::Instant;

// ---------------------------------------------------------------- guarded execution

thread_local! {
    static LAST_PANIC: RefCell<Option<(String, String)>> = const { RefCell::new(None) };
}

pub fn install_panic_hook() {
    std::panic::set_hook(Box::new(|info| {
        let msg = if let Some(s) = info.payload().downcast_ref::<&str>() {
            s.to_string()
        } else if let Some(s) = info.payload().downcast_ref::<String>() {
            s.clone()
        } else {
            "<non-string panic payload>".to_string()
        };
        let loc = info.location().map(|l| format!("{}:{}", l.file(), l.line())).unwrap_or_default();
        LAST_PANIC.with(|p| *p.borrow_mut() = Some((msg, loc)));
    }));
}

#[derive(Debug, Clone)]
pub enum Out<T> {
    Ok(T),
    /// message, file:line
    Panic(String, String),
    /// tick site
    Budget(u32),
}

impl<T> Out<T> {
    pub fn is_ok(&self) -> bool { matches!(self, Out::Ok(_)) }
    pub fn crash_desc(&self) -> Option<String> {
        match self {
            Out::Ok(_) => None,
            Out::Panic(m, l) => Some(format!("panic `{}` at {}", m, l)),
            Out::Budget(s) => Some(format!("step budget exhausted at loop site {}", s)),
        }
    }
    /// signature of a crash that is robust to line shifts: message + text of the source line
    pub fn crash_sig(&self) -> Option<String> {
        match self {
            Out::Ok(_) => None,
            Out::Panic(m, l) => Some(format!("panic|{}|{}", trunc(m, 60), source_line_text(l))),
            Out::Budget(s) => Some(format!("budget|site={}", s)),
        }
    }
}

pub fn trunc(s: &str, n: usize) -> String {
    s.chars().take(n).collect()
}

pub fn source_line_text(loc: &str) -> String {
    // loc = "/repo/src/x.rs:123" or "src/x.rs:123"
    let Some((file, line)) = loc.rsplit_once(':') else { return loc.to_string() };
    let Ok(n) = line.parse::<usize>() else { return loc.to_string() };
    let path = if file.starts_with('/') { file.to_string() } else { format!("/repo/{}", file) };
    let short = file.rsplit("/src/").next().unwrap_or(file);
    match std::fs::read_to_string(&path) {
        Ok(s) => format!("{}:{}", short, s.lines().nth(n.saturating_sub(1)).unwrap_or("").trim()),
        Err(_) => format!("{}:?", short),
    }
}

/// Step budget proportional to |word| x |rule|: 2 000 + 20 (|w|+1)(|r|+1) loop iterations.
/// (DESIGN §3 planned 50x more; a loop that grows the word on every iteration costs
/// O(n^2) before such a budget trips, so the constant was lowered; evidence records the
/// largest budget fraction any terminating case used.)
pub fn budget_for(word_chars: usize, rule_chars: usize) -> u64 {
    2_000 + 20 * (word_chars as u64 + 1) * (rule_chars as u64 + 1)
}

pub fn guarded<T>(budget: u64, f: impl FnOnce() -> T) -> Out<T> {
    av::set_budget(budget);
    LAST_PANIC.with(|p| *p.borrow_mut() = None);
    let r = catch_unwind(AssertUnwindSafe(f));
    av::set_budget(u64::MAX);
    match r {
        Ok(v) => Out::Ok(v),
        Err(_) => {
            let (msg, loc) = LAST_PANIC.with(|p| p.borrow_mut().take()).unwrap_or_default();
            if let Some(rest) = msg.strip_prefix("VERIF-BUDGET site=") {
                Out::Budget(rest.trim().parse().unwrap_or(0))
            } else {
                Out::Panic(msg, loc)
            }
        }
    }
}

// ---------------------------------------------------------------- parallel enumeration

pub fn n_threads() -> usize {
    std::env::var("VERIF_THREADS").ok().and_then(|s| s.parse().ok()).unwrap_or_else(|| {
        std::thread::available_parallelism().map(|n| n.get()).unwrap_or(4).min(16)
    })
}

/// Exhaustively visits every index of `0..n` (chunks handed out by an atomic counter),
/// folding into a per-thread accumulator; accumulators are merged in thread order.
pub fn par_fold<A: Send>(n: usize, chunk: usize, init: impl Fn() -> A + Sync, work: impl Fn(usize, &mut A) + Sync, mut merge: impl FnMut(A)) {
    let next = AtomicUsize::new(0);
    let threads = n_threads().min(n.div_ceil(chunk.max(1)).max(1));
    let results: Mutex<Vec<(usize, A)>> = Mutex::new(Vec::new());
    std::thread::scope(|s| {
        for t in 0..threads {
            let next = &next;
            let init = &init;
            let work = &work;
            let results = &results;
            std::thread::Builder::new()
                .stack_size(512 << 20)
                .spawn_scoped(s, move || {
                    let mut acc = init();
                    loop {
                        let start = next.fetch_add(chunk, Ordering::Relaxed);
                        if start >= n { break; }
                        for i in start..(start + chunk).min(n) {
                            work(i, &mut acc);
                        }
                    }
                    results.lock().unwrap().push((t, acc));
                })
                .unwrap();
        }
    });
    let mut v = results.into_inner().unwrap();
    v.sort_by_key(|x| x.0);
    for (_, a) in v { merge(a); }
}

// ---------------------------------------------------------------- canonical words

pub type SegBits = (u8, u8, u8, Option<u16>);

#[derive(Clone, PartialEq, Eq, Hash, Debug, PartialOrd, Ord)]
pub struct CSyl {
    pub segs: Vec<SegBits>,
    /// 0 unstressed, 1 primary, 2 secondary
    pub stress: u8,
    pub tone: u16,
}
pub type CW = Vec<CSyl>;

pub fn bits(s: &Segment) -> SegBits { (s.root, s.manner, s.laryngeal, *s.place) }
pub fn seg_of(b: SegBits) -> Segment {
    let mut s = Segment::default();
    s.root = b.0; s.manner = b.1; s.laryngeal = b.2; *s.place = b.3;
    s
}
pub fn stress_code(s: StressKind) -> u8 {
    match s { StressKind::Unstressed => 0, StressKind::Primary => 1, StressKind::Secondary => 2 }
}
pub fn stress_kind(c: u8) -> StressKind {
    match c { 0 => StressKind::Unstressed, 1 => StressKind::Primary, _ => StressKind::Secondary }
}
pub fn cw_of(w: &Word) -> CW {
    w.syllables.iter().map(|sy| CSyl { segs: sy.segments.iter().map(bits).collect(), stress: stress_code(sy.stress), tone: sy.tone }).collect()
}
pub fn word_of(c: &CW) -> Word {
    av::make_word(c.iter().map(|sy| Syllable { segments: sy.segs.iter().map(|b| seg_of(*b)).collect(), stress: stress_kind(sy.stress), tone: sy.tone }).collect())
}
pub fn show_cw(c: &CW) -> String {
    let w = word_of(c);
    let r = guarded(1_000_000, || av::render_word(&w, None));
    match r {
        Out::Ok(s) if !s.contains('\u{FFFD}') => s,
        _ => format!("{:?}", c),
    }
}
pub fn show_word(w: &Word) -> String { show_cw(&cw_of(w)) }
pub fn cw_json(c: &CW) -> Value {
    json!(c.iter().map(|sy| json!({"segs": sy.segs.iter().map(|b| json!([b.0, b.1, b.2, b.3])).collect::<Vec<_>>(), "stress": sy.stress, "tone": sy.tone})).collect::<Vec<_>>())
}
pub fn cw_from_json(v: &Value) -> Option<CW> {
    let mut out = Vec::new();
    for sy in v.as_array()? {
        let mut segs = Vec::new();
        for s in sy["segs"].as_array()? {
            let a = s.as_array()?;
            segs.push((a[0].as_u64()? as u8, a[1].as_u64()? as u8, a[2].as_u64()? as u8, a[3].as_u64().map(|x| x as u16)));
        }
        out.push(CSyl { segs, stress: sy["stress"].as_u64()? as u8, tone: sy["tone"].as_u64()? as u16 });
    }
    Some(out)
}

pub fn seg(text: &str) -> SegBits {
    let w = av::parse_word(text, None).unwrap_or_else(|_| panic!("fixture segment {text} must parse"));
    assert_eq!(w.syllables.len(), 1);
    bits(&w.syllables[0].segments[0])
}

pub fn group(rules: &[&str]) -> asca::RuleGroup {
    asca::RuleGroup { name: String::new(), rule: rules.iter().map(|s| s.to_string()).collect(), description: String::new() }
}

/// All words of 1..=max_len segments over `inv` in every syllabification.
pub fn word_space(inv: &[SegBits], max_len: usize) -> Vec<CW> {
    let mut out = Vec::new();
    for n in 1..=max_len {
        let total = inv.len().pow(n as u32);
        for idx in 0..total {
            let mut segs = Vec::with_capacity(n);
            let mut k = idx;
            for _ in 0..n { segs.push(inv[k % inv.len()]); k /= inv.len(); }
            for mask in 0..(1usize << (n - 1)) {
                let mut w: CW = Vec::new();
                let mut cur = CSyl { segs: vec![], stress: 0, tone: 0 };
                for (i, s) in segs.iter().enumerate() {
                    cur.segs.push(*s);
                    if i + 1 < n && mask & (1 << i) != 0 {
                        w.push(std::mem::replace(&mut cur, CSyl { segs: vec![], stress: 0, tone: 0 }));
                    }
                }
                w.push(cur);
                out.push(w);
            }
        }
    }
    out
}

pub fn has_adjacent_equal(c: &CW) -> bool {
    c.iter().any(|sy| sy.segs.windows(2).any(|p| p[0] == p[1]))
}

// ---------------------------------------------------------------- violations, findings, evidence

#[derive(Clone, Debug)]
pub struct Viol {
    /// signature: identifies the failing cell / input tightly
    pub key: String,
    pub desc: String,
    /// enough to re-run the case: see replay.rs
    pub case: Value,
}

pub struct Report {
    pub pid: &'static str,
    pub tier: String,
    pub seed: i64,
    pub started: Instant,
    pub evaluations: u64,
    pub transitions: u64,
    pub validated: u64,
    pub skipped: BTreeMap<String, u64>,
    pub states: BTreeSet<u64>,
    pub states_count_override: Option<u64>,
    pub outcomes: BTreeMap<String, u64>,
    pub nontrivial: u64,
    pub rule: String,
    pub samples: Vec<Value>,
    pub boxes: Vec<Value>,
    pub viols: Vec<Viol>,
    pub viol_total: u64,
    pub classes: BTreeMap<String, u64>,
    pub viol_cap: usize,
    /// class of a violation = its first n `|`-separated key parts (None: everything up to the last `|`)
    pub class_parts: Option<usize>,
    pub assumptions: Vec<String>,
    pub extra: BTreeMap<String, Value>,
    pub exhaustive: bool,
    pub machinery_errors: Vec<String>,
}

pub fn tier() -> String {
    let mut t = std::env::var("VERIF_TIER").unwrap_or_else(|_| "quick".into());
    let args: Vec<String> = std::env::args().collect();
    for i in 0..args.len() {
        if args[i] == "--tier" && i + 1 < args.len() { t = args[i + 1].clone(); }
    }
    if t != "thorough" { "quick".into() } else { t }
}

impl Report {
    pub fn new(pid: &'static str) -> Self {
        Report {
            pid, tier: tier(),
            seed: std::env::var("VERIF_SEED").ok().and_then(|s| s.parse().ok()).unwrap_or(0),
            started: Instant::now(), evaluations: 0, transitions: 0, validated: 0,
            skipped: BTreeMap::new(), states: BTreeSet::new(), states_count_override: None, outcomes: BTreeMap::new(),
            nontrivial: 0, rule: String::new(), samples: vec![], boxes: vec![], viols: vec![], viol_total: 0, classes: BTreeMap::new(), viol_cap: 400, class_parts: None,
            assumptions: vec![], extra: BTreeMap::new(), exhaustive: true, machinery_errors: vec![],
        }
    }
    pub fn thorough(&self) -> bool { self.tier == "thorough" }
    pub fn viol(&mut self, v: Viol) {
        self.viol_total += 1;
        // class = key up to the last `|` (usually the rule without the word)
        let class = match self.class_parts { Some(n) => v.key.split('|').take(n).collect::<Vec<_>>().join("|"), None => v.key.rsplit_once('|').map(|x| x.0.to_string()).unwrap_or(v.key.clone()) };
        if self.classes.len() < 300 || self.classes.contains_key(&class) { *self.classes.entry(class).or_insert(0) += 1; }
        // keep one representative per key, at most 400 keys
        if self.viols.len() < self.viol_cap && !self.viols.iter().any(|x| x.key == v.key) {
            self.viols.push(v);
        }
    }
    pub fn skip(&mut self, why: &str, n: u64) { *self.skipped.entry(why.to_string()).or_insert(0) += n; }
    pub fn outcome(&mut self, what: &str, n: u64) { *self.outcomes.entry(what.to_string()).or_insert(0) += n; }
    pub fn sample(&mut self, v: Value) { if self.samples.len() < 12 { self.samples.push(v); } }
    pub fn guard(&mut self, ok: bool, what: &str) {
        if !ok { self.machinery_errors.push(format!("vacuity guard failed: {}", what)); }
    }

    /// Writes evidence, prints KNOWN-FINDING / VIOLATION lines, returns the exit code.
    pub fn finish(mut self) -> i32 {
        let findings = Findings::load();
        let mut unlisted: Vec<Viol> = vec![];
        let mut matched: BTreeMap<String, (String, u64)> = BTreeMap::new();
        let viols = std::mem::take(&mut self.viols);
        for v in viols {
            match findings.matches(self.pid, &v.key) {
                Some((id, what)) => { let e = matched.entry(id).or_insert((what, 0)); e.1 += 1; }
                None => unlisted.push(v),
            }
        }
        let mut code = 0;
        for (id, (what, n)) in &matched {
            println!("KNOWN-FINDING: property={} {} [{}; {} distinct failing keys matched]", self.pid, what, id, n);
        }
        let mut replay_paths = vec![];
        if !unlisted.is_empty() {
            code = 1;
            let dir = format!("{}/replays/{}", root(), self.pid);
            let _ = std::fs::create_dir_all(&dir);
            for (i, v) in unlisted.iter().enumerate().take(25) {
                let path = format!("{}/{:03}.json", dir, i);
                let body = json!({"property": self.pid, "key": v.key, "description": v.desc, "case": v.case});
                let _ = std::fs::write(&path, serde_json::to_string_pretty(&body).unwrap());
                println!("VIOLATION property={} replay={}", self.pid, path);
                println!("  {} :: {}", v.key, v.desc);
                replay_paths.push(path);
            }
            if unlisted.len() > 25 { println!("  ... and {} more distinct violation keys", unlisted.len() - 25); }
        }
        if !self.machinery_errors.is_empty() {
            for m in &self.machinery_errors { eprintln!("MACHINERY: {}", m); }
            if code == 0 { code = 2; }
        }
        let states = self.states_count_override.unwrap_or(self.states.len() as u64).max(1);
        let mut cov = serde_json::Map::new();
        cov.insert("states".into(), json!(states));
        cov.insert("transitions".into(), json!(self.transitions.max(1)));
        cov.insert("traces_validated_against_impl".into(), json!(self.validated));
        cov.insert("evaluations".into(), json!(self.evaluations.max(1)));
        cov.insert("distinct_nontrivial".into(), json!(self.nontrivial));
        cov.insert("rule".into(), json!(self.rule));
        cov.insert("samples".into(), json!(if self.samples.is_empty() { vec![json!("<none>")] } else { self.samples.clone() }));
        cov.insert("exhaustive".into(), json!(self.exhaustive));
        cov.insert("boxes".into(), json!(self.boxes));
        cov.insert("skipped_by_precondition".into(), json!(self.skipped));
        cov.insert("observed_outcomes".into(), json!(self.outcomes));
        cov.insert("known_findings_matched".into(), json!(matched.iter().map(|(k, v)| json!({"id": k, "keys": v.1})).collect::<Vec<_>>()));
        cov.insert("violation_cases_total".into(), json!(self.viol_total));
        cov.insert("unlisted_violation_keys".into(), json!(unlisted.iter().map(|v| v.key.clone()).take(if std::env::var("VERIF_DUMP").is_ok() { 100000 } else { 50 }).collect::<Vec<_>>()));
        cov.insert("violation_classes".into(), json!(self.classes));
        cov.insert("machinery_errors".into(), json!(self.machinery_errors));
        for (k, v) in &self.extra { cov.insert(k.clone(), v.clone()); }
        let ev = json!({
            "property_id": self.pid,
            "tier": self.tier,
            "seed": self.seed,
            "level": "model_checking",
            "coverage": Value::Object(cov),
            "assumptions": self.assumptions,
            "wall_s": self.started.elapsed().as_secs_f64(),
            "violations": unlisted.len(),
        });
        let _ = std::fs::create_dir_all(format!("{}/evidence", root()));
        std::fs::write(format!("{}/evidence/{}.json", root(), self.pid), serde_json::to_string_pretty(&ev).unwrap()).expect("write evidence");
        println!("{} tier={} evaluations={} transitions={} states={} validated={} violations(unlisted keys)={} known={} wall={:.1}s exit={}",
            self.pid, self.tier, self.evaluations, self.transitions, states, self.validated, unlisted.len(), matched.len(), self.started.elapsed().as_secs_f64(), code);
        code
    }
}

/// Root of the verification tree: `VERIF_ROOT` (set by ./check to its own directory), default /verif.
pub fn root() -> String { std::env::var("VERIF_ROOT").unwrap_or_else(|_| "/verif".to_string()) }

pub fn hash64<T: std::hash::Hash>(t: &T) -> u64 {
    use std::hash::Hasher;
    let mut h = std::collections::hash_map::DefaultHasher::new();
    t.hash(&mut h);
    h.finish()
}

pub struct Findings { entries: Vec<Value> }

impl Findings {
    pub fn load() -> Self {
        let v: Value = std::fs::read_to_string(format!("{}/known_findings.json", root())).ok().and_then(|s| serde_json::from_str(&s).ok()).unwrap_or(json!({"findings": []}));
        let mut entries = v["findings"].as_array().cloned().unwrap_or_default();
        // data lists: {"keys_file": "known_findings/x.json"} -> array of keys
        for e in entries.iter_mut() {
            if let Some(f) = e.get("keys_file").and_then(|x| x.as_str()) {
                if let Ok(s) = std::fs::read_to_string(format!("{}/{}", root(), f)) {
                    if let Ok(Value::Array(a)) = serde_json::from_str::<Value>(&s) {
                        let mut ks = e["keys"].as_array().cloned().unwrap_or_default();
                        ks.extend(a);
                        e["keys"] = Value::Array(ks);
                    }
                }
            }
        }
        Findings { entries }
    }
    /// Only `open` entries suppress; an entry lists exact keys.
    pub fn matches(&self, pid: &str, key: &str) -> Option<(String, String)> {
        for e in &self.entries {
            if e["property"].as_str() != Some(pid) || e["status"].as_str() != Some("open") { continue; }
            if let Some(ks) = e["keys"].as_array() {
                if ks.iter().any(|k| k.as_str() == Some(key)) {
                    return Some((e["id"].as_str().unwrap_or("?").to_string(), e["what"].as_str().unwrap_or("").to_string()));
                }
            }
        }
        None
    }
}
