//! Harness-side readers for the documented file formats (doc-cli.md), written from the
//! manual, independent of src/cli/parse.rs.
use asca::RuleGroup;

/// .rsca: `@ name`, rule lines (may be indented, blank lines allowed), `# description` lines
pub fn parse_rsca(text: &str) -> Vec<RuleGroup> {
    let mut out: Vec<RuleGroup> = vec![];
    for line in text.lines() {
        let l = line.trim();
        if let Some(name) = l.strip_prefix('@') {
            out.push(RuleGroup { name: name.trim().to_string(), rule: vec![], description: String::new() });
        } else if let Some(d) = l.strip_prefix('#') {
            if let Some(g) = out.last_mut() { if !g.description.is_empty() { g.description.push('\n'); } g.description.push_str(d.trim()); }
        } else if !l.is_empty() {
            if out.is_empty() { out.push(RuleGroup { name: String::new(), rule: vec![], description: String::new() }); }
            out.last_mut().unwrap().rule.push(l.to_string());
        }
    }
    out
}

/// .wsca: one entry per line, `#` starts a comment
pub fn parse_wsca(text: &str) -> Vec<String> {
    text.lines().map(|l| l.split('#').next().unwrap_or("").trim().to_string()).collect()
}

/// .alias: `@into` / `@from` sections
pub fn parse_alias(text: &str) -> (Vec<String>, Vec<String>) {
    let (mut into, mut from) = (vec![], vec![]);
    let mut sec = 0;
    for line in text.lines() {
        let l = line.trim();
        if l.is_empty() { continue; }
        if let Some(t) = l.strip_prefix('@') {
            // `@into` / `@from` open a section; anything else starting with `@` (e.g. `@{acute} > ..`) is an alias line
            if t.trim().eq_ignore_ascii_case("into") { sec = 1; continue; }
            if t.trim().eq_ignore_ascii_case("from") { sec = 2; continue; }
        }
        match sec { 1 => into.push(l.to_string()), 2 => from.push(l.to_string()), _ => {} }
    }
    (into, from)
}
