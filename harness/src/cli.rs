//! Engine C: runs the real `asca` binary (built without the verif feature, as users get it)
//! on generated project trees under /verif/work.
use std::path::{Path, PathBuf};
use std::process::{Command, Stdio};
use std::time::{Duration, Instant};

pub fn cli() -> String { format!("{}/cli/release/asca", std::env::var("VERIF_TARGET").unwrap_or_else(|_| format!("{}/target", crate::util::root()))) }

pub struct CliOut { pub code: Option<i32>, pub stdout: String, pub stderr: String, pub timed_out: bool }

pub fn run_cli(cwd: &Path, args: &[&str]) -> CliOut {
    let mut child = match Command::new(cli()).args(args).current_dir(cwd).env("NO_COLOR", "1").env_remove("CLICOLOR_FORCE")
        .stdin(Stdio::null()).stdout(Stdio::piped()).stderr(Stdio::piped()).spawn() {
        Ok(c) => c,
        Err(e) => return CliOut { code: None, stdout: String::new(), stderr: format!("spawn failed: {}", e), timed_out: false },
    };
    let t0 = Instant::now();
    loop {
        match child.try_wait() {
            Ok(Some(_)) => break,
            Ok(None) => {
                if t0.elapsed() > Duration::from_secs(20) { let _ = child.kill(); let _ = child.wait(); return CliOut { code: None, stdout: String::new(), stderr: "timeout".into(), timed_out: true }; }
                std::thread::sleep(Duration::from_millis(1));
            }
            Err(_) => break,
        }
    }
    let out = child.wait_with_output().expect("wait");
    CliOut { code: out.status.code(), stdout: String::from_utf8_lossy(&out.stdout).into(), stderr: String::from_utf8_lossy(&out.stderr).into(), timed_out: false }
}

/// like `run_cli`, with text fed to the process on stdin (answers to its prompts)
pub fn run_cli_stdin(cwd: &Path, args: &[&str], input: &str) -> CliOut {
    use std::io::Write;
    let mut child = match Command::new(cli()).args(args).current_dir(cwd).env("NO_COLOR", "1").env_remove("CLICOLOR_FORCE")
        .stdin(Stdio::piped()).stdout(Stdio::piped()).stderr(Stdio::piped()).spawn() {
        Ok(c) => c,
        Err(e) => return CliOut { code: None, stdout: String::new(), stderr: format!("spawn failed: {}", e), timed_out: false },
    };
    if let Some(mut si) = child.stdin.take() { let _ = si.write_all(input.as_bytes()); }
    let t0 = Instant::now();
    loop {
        match child.try_wait() {
            Ok(Some(_)) => break,
            Ok(None) => {
                if t0.elapsed() > Duration::from_secs(20) { let _ = child.kill(); let _ = child.wait(); return CliOut { code: None, stdout: String::new(), stderr: "timeout".into(), timed_out: true }; }
                std::thread::sleep(Duration::from_millis(1));
            }
            Err(_) => break,
        }
    }
    let out = child.wait_with_output().expect("wait");
    CliOut { code: out.status.code(), stdout: String::from_utf8_lossy(&out.stdout).into(), stderr: String::from_utf8_lossy(&out.stderr).into(), timed_out: false }
}

pub struct Sandbox { pub dir: PathBuf }
impl Sandbox {
    pub fn new(tag: &str, n: usize) -> Self {
        let dir = PathBuf::from(format!("{}/work/{}_{}/{}", crate::util::root(), tag, std::process::id(), n));
        let _ = std::fs::remove_dir_all(&dir);
        std::fs::create_dir_all(&dir).expect("sandbox dir");
        Sandbox { dir }
    }
    pub fn write(&self, rel: &str, content: &str) {
        let p = self.dir.join(rel);
        if let Some(parent) = p.parent() { let _ = std::fs::create_dir_all(parent); }
        std::fs::write(p, content).expect("write fixture");
    }
    pub fn read(&self, rel: &str) -> Option<String> { std::fs::read_to_string(self.dir.join(rel)).ok() }
    pub fn list(&self, rel: &str) -> Vec<String> {
        let mut v: Vec<String> = std::fs::read_dir(self.dir.join(rel)).map(|d| d.filter_map(|e| e.ok()).map(|e| e.file_name().to_string_lossy().to_string()).collect()).unwrap_or_default();
        v.sort(); v
    }
}
impl Drop for Sandbox { fn drop(&mut self) { let _ = std::fs::remove_dir_all(&self.dir); } }

pub fn cleanup(tag: &str) { let _ = std::fs::remove_dir_all(format!("{}/work/{}_{}", crate::util::root(), tag, std::process::id())); }

pub fn cli_available() -> bool { Path::new(&cli()).exists() }
