#![allow(dead_code)]
mod util;
mod model;
mod refint;
mod rulegen;
mod bfs;
mod formats;
mod cli;
mod props;

fn main() {
    std::env::set_var("NO_COLOR", "1");
    util::install_panic_hook();
    let args: Vec<String> = std::env::args().collect();
    let cmd = args.get(1).map(|s| s.as_str()).unwrap_or("");
    let code = match cmd {
        "C01" => props::c01::run(),
        "C19" => props::c19::run(),
        "C20" => props::c20::run(),
        "c01-worker" => props::c01::worker(&args[2..]),
        "C02" => props::c02::run(),
        "C03" => props::c03::run(),
        "C04" => props::c04::run(),
        "C05" => props::c05::run(),
        "C06" => props::c06::run(),
        "C07" => props::c07::run(),
        "C08" => props::c08::run(),
        "C09" => props::c09::run(),
        "C10" => props::c10::run(),
        "C11" => props::c11::run_check(),
        "C12" => props::c12::run(),
        "C13" => props::c13::run(),
        "C14" => props::c14::run(),
        "C15" => props::c15::run(),
        "C16" => props::c16::run(),
        "C17" => props::c17::run(),
        "C18" => props::c18::run(),
        "rulegen-stats" => { rulegen_stats(); 0 }
        "try" => { try_rule(&args[2..]); 0 }
        "try-err" => { try_err(&args[2..]); 0 }
        "try-alias" => { let r = asca::run(&[], &args[4..].to_vec(), &[args[2].clone()].into_iter().filter(|x| !x.is_empty()).collect::<Vec<_>>(), &[args[3].clone()].into_iter().filter(|x| !x.is_empty()).collect::<Vec<_>>()); println!("{:?}", r); 0 }
        "replay" => replay(args.get(2).map(|s| s.as_str()).unwrap_or("")),
        _ => { eprintln!("usage: ascamc <C01..C20> [--tier quick|thorough] | replay <file>"); 2 }
    };
    std::process::exit(code);
}

fn replay(path: &str) -> i32 {
    let Ok(s) = std::fs::read_to_string(path) else { eprintln!("cannot read {path}"); return 2 };
    let Ok(v) = serde_json::from_str::<serde_json::Value>(&s) else { eprintln!("bad json"); return 2 };
    let pid = v["property"].as_str().unwrap_or("");
    println!("replaying {} :: {}", pid, v["key"].as_str().unwrap_or(""));
    let res = match pid {
        "C01" => props::c01::replay(&v["case"]),
        "C02" => props::c02::replay(&v["case"]),
        "C03" => props::c03::replay(&v["case"]),
        "C04" => props::c04::replay(&v["case"]),
        "C05" => props::c05::replay(&v["case"]),
        "C06" => props::c06::replay(&v["case"]),
        "C07" => props::c07::replay(&v["case"]),
        "C08" => props::c08::replay(&v["case"]),
        "C09" => props::c09::replay(&v["case"]),
        "C10" => props::c10::replay(&v["case"]),
        "C11" => props::c11::replay(&v["case"]),
        "C12" => props::c12::replay(&v["case"]),
        "C13" => props::c13::replay(&v["case"]),
        "C14" => props::c14::replay(&v["case"]),
        "C15" => props::c15::replay(&v["case"]),
        "C16" => props::c16::replay(&v["case"]),
        "C17" => props::c17::replay(&v["case"]),
        "C18" => props::c18::replay(&v["case"]),
        "C19" => props::c19::replay(&v["case"]),
        "C20" => props::c20::replay(&v["case"]),
        _ => Err(format!("no replay for {pid}")),
    };
    match res {
        Ok(d) => { println!("PASS: {}", d); 0 }
        Err(d) => { println!("FAIL: {}", d); println!("VIOLATION property={} replay={}", pid, path); 1 }
    }
}

#[allow(unused)]
fn rulegen_stats() {
    for n in 2..=4 {
        let t = std::time::Instant::now();
        let v = rulegen::rules_of_size(n);
        println!("size {}: {} rules ({:.1}s) e.g. {}", n, v.len(), t.elapsed().as_secs_f64(), v[v.len() / 3].text());
    }
}

/// `ascamc try "<rule>[ ;;; <rule2>]" word...` : prints run() per word (probing aid)
fn try_rule(a: &[String]) {
    let rules: Vec<&str> = a[0].split(";;;").map(|s| s.trim()).collect();
    for w in &a[1..] {
        let r = util::guarded(util::budget_for(w.chars().count(), a[0].chars().count()), || asca::run(&[util::group(&rules)], &[w.clone()], &[], &[]));
        match r {
            util::Out::Ok(Ok(v)) => println!("{} => {}", w, v.join(" ")),
            util::Out::Ok(Err(e)) => println!("{} => Err {:?}", w, e),
            o => println!("{} => CRASH {}", w, o.crash_desc().unwrap()),
        }
    }
}

/// `ascamc try-err "<rule>" "<into alias>" "<from alias>" word...` prints the formatted error
fn try_err(a: &[String]) {
    use asca::ASCAError;
    let rules = vec![util::group(&[a[0].as_str()])];
    let into: Vec<String> = if a[1].is_empty() { vec![] } else { vec![a[1].clone()] };
    let from: Vec<String> = if a[2].is_empty() { vec![] } else { vec![a[2].clone()] };
    let words: Vec<String> = a[3..].to_vec();
    match asca::run(&rules, &words, &into, &from) {
        Ok(v) => println!("Ok {:?}", v),
        Err(e) => { println!("{:?}", e); let s = match &e { asca::Error::WordSyn(_) | asca::Error::WordRun(_) => e.format_word_error(&words), asca::Error::AliasSyn(_) | asca::Error::AliasRun(_) => e.format_alias_error(&into, &from), _ => e.format_rule_error(&rules) }; println!("{}", s); }
    }
}
