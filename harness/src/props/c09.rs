//! C09 — ASCA can read back what it writes: parse(render(w)) == w when the rendering has no �.
use crate::bfs::{self, Step};
use crate::model::{self, FEATS};
use crate::util::*;
use asca::verif as av;
use serde_json::{json, Value};
use std::collections::BTreeSet;

#[derive(Default)]
struct Acc { evals: u64, ok: u64, unrenderable: u64, skipped: u64, viols: Vec<Viol>, outs: BTreeSet<u64> }
impl Acc { fn merge(&mut self, o: Acc) { self.evals += o.evals; self.ok += o.ok; self.unrenderable += o.unrenderable; self.skipped += o.skipped; self.viols.extend(o.viols); self.outs.extend(o.outs); } }

/// Ok(Some(text)) round trip holds, Ok(None) unrenderable (contains �), Err(description)
pub fn roundtrip(w: &CW) -> Result<Option<String>, String> {
    let word = word_of(w);
    let text = match guarded(200_000, || av::render_word(&word, None)) { Out::Ok(t) => t, o => return Err(format!("render: {}", o.crash_desc().unwrap())) };
    if text.contains('\u{FFFD}') { return Ok(None); }
    match guarded(200_000, || av::parse_word(&text, None).map(|x| cw_of(&x))) {
        Out::Ok(Ok(back)) => {
            if back != *w { return Err(format!("renders as `{}` which parses back as a different word {:?} (was {:?})", text, back, w)); }
        }
        Out::Ok(Err(e)) => return Err(format!("renders as `{}` which the word parser rejects: {:?}", text, e)),
        o => return Err(format!("renders as `{}`; parsing it: {}", text, o.crash_desc().unwrap())),
    }
    // fixed point of the empty rule list through the public API
    match guarded(400_000, || asca::run(&[], &[text.clone()], &[], &[])) {
        Out::Ok(Ok(v)) if v.len() == 1 && v[0] == text => Ok(Some(text)),
        Out::Ok(Ok(v)) => Err(format!("`{}` is not a fixed point of the empty rule list: run gives {:?}", text, v)),
        Out::Ok(Err(e)) => Err(format!("run([], [`{}`]) fails: {:?}", text, e)),
        o => Err(format!("run([], [`{}`]): {}", text, o.crash_desc().unwrap())),
    }
}

fn check(w: &CW, key: String, a: &mut Acc) {
    a.evals += 1;
    match roundtrip(w) {
        Ok(Some(t)) => { a.ok += 1; a.outs.insert(hash64(&t)); }
        Ok(None) => a.unrenderable += 1,
        Err(d) => a.viols.push(Viol { key, desc: d, case: json!({"word": cw_json(w)}) }),
    }
}

fn one(b: SegBits) -> CW { vec![CSyl { segs: vec![b], stress: 0, tone: 0 }] }
fn seg_key(b: SegBits) -> String { format!("seg|{},{},{},{}", b.0, b.1, b.2, b.3.map(|x| x.to_string()).unwrap_or("-".into())) }

/// every bundle the parser accepts for base + <= k diacritics
fn parsed_universe(k: usize) -> Vec<SegBits> {
    let bases: Vec<String> = av::cardinals().into_iter().map(|x| x.0).collect();
    let dias = av::diacritics();
    let mut strings: Vec<String> = bases.clone();
    if k >= 1 { for b in &bases { for d in &dias { strings.push(format!("{}{}", b, d)); } } }
    if k >= 2 { for b in &bases { for d in &dias { for e in &dias { strings.push(format!("{}{}{}", b, d, e)); } } } }
    let mut set: BTreeSet<SegBits> = BTreeSet::new();
    par_fold(strings.len(), 2048, BTreeSet::new, |i, acc: &mut BTreeSet<SegBits>| {
        if let Out::Ok(Ok(w)) = guarded(200_000, || av::parse_word(&strings[i], None)) {
            if w.syllables.len() == 1 && w.syllables[0].segments.len() == 1 { acc.insert(bits(&w.syllables[0].segments[0])); }
        }
    }, |a| set.extend(a));
    set.into_iter().collect()
}

pub fn run() -> i32 {
    let mut r = Report::new("C09");
    r.viol_cap = 20000;
    let thorough = r.thorough();
    r.rule = "(i) every feature bundle the word parser accepts for base phone + <= k diacritics (k = 1 quick, 2 thorough) plus every bundle obtained from those with <= k-1... (quick: from the bases) by one feature or place-node change; (ii) every ordered pair of base phones (quick: a 70-phone subset incl. every multi-character base) inside one syllable and across a boundary; (ii-b) every base phone next to its own twin carrying one diacritic, in both orders and after a long plain run; (iii) every word of <= n segments over {p, ã, t͡s, ŋʘ} x length 1..3 x stress x tone {0,5,51,1234} in every syllabification; (iv) every state of the C08 BFS. Oracle: if render(w) has no �, parse(render(w)) == w structurally and run([], [render(w)]) == [render(w)]. Non-trivial = renderable and distinct rendering.".into();
    // (i)
    let k = if thorough { 2 } else { 1 };
    let parsed = parsed_universe(k);
    let change_base = if thorough { parsed_universe(1) } else { av::cardinals().into_iter().map(|x| bits(&x.1)).collect() };
    let mut uni: BTreeSet<SegBits> = parsed.iter().cloned().collect();
    let n_parsed = uni.len();
    for b in &change_base {
        for f in 0..FEATS.len() { for v in [true, false] { uni.insert(model::set_feat(*b, f, v)); } }
        for n in 0..4 { uni.insert(model::add_node(*b, n)); uni.insert(model::del_node(*b, n)); }
        uni.insert((b.0, b.1, b.2, None));
    }
    let uni: Vec<SegBits> = uni.into_iter().collect();
    let mut t1 = Acc::default();
    par_fold(uni.len(), 256, Acc::default, |i, a| check(&one(uni[i]), seg_key(uni[i]), a), |a| t1.merge(a));
    r.boxes.push(json!({"box": format!("(i) segments: parsed base+<={} diacritics ({}) + single feature/node changes", k, n_parsed), "bundles": uni.len(), "round_trip_ok": t1.ok, "unrenderable": t1.unrenderable, "failures": t1.viols.len()}));
    r.guard(t1.ok > 5000, "(i) more than 5000 bundles round-trip");
    // (ii)
    let cards = av::cardinals();
    let subset: Vec<(String, SegBits)> = if thorough { cards.iter().map(|x| (x.0.clone(), bits(&x.1))).collect() } else {
        cards.iter().enumerate().filter(|(i, x)| x.0.chars().count() > 1 || i % 8 == 0).map(|(_, x)| (x.0.clone(), bits(&x.1))).collect()
    };
    let mut t2 = Acc::default();
    par_fold(subset.len() * subset.len(), 512, Acc::default, |i, a| {
        let (x, y) = (&subset[i / subset.len()], &subset[i % subset.len()]);
        check(&vec![CSyl { segs: vec![x.1, y.1], stress: 0, tone: 0 }], format!("pair|{}+{}", x.0, y.0), a);
        check(&vec![CSyl { segs: vec![x.1], stress: 0, tone: 0 }, CSyl { segs: vec![y.1], stress: 0, tone: 0 }], format!("pair|{}.{}", x.0, y.0), a);
    }, |a| t2.merge(a));
    r.boxes.push(json!({"box": "(ii) ordered pairs of base phones, tautosyllabic and across a boundary", "phones": subset.len(), "words": t2.evals, "round_trip_ok": t2.ok, "unrenderable": t2.unrenderable, "failures": t2.viols.len()}));
    // (ii-b) a phone next to its own twin carrying one diacritic, in both orders and after a long plain run (`aã`, `ãa`, `aaã`): the reader
    // has to attach the diacritic to the last copy only and must not merge the twin into a run
    let dias = av::diacritics();
    let mut twins: Vec<(String, SegBits, SegBits)> = vec![];
    for (g, sg) in cards.iter().step_by(if thorough { 1 } else { 3 }) {
        let b = bits(sg);
        for d in &dias {
            let t = format!("{}{}", g, d);
            if let Out::Ok(Ok(w)) = guarded(200_000, || av::parse_word(&t, None)) {
                if w.syllables.len() == 1 && w.syllables[0].segments.len() == 1 { let v = bits(&w.syllables[0].segments[0]); if v != b { twins.push((t, b, v)); } }
            }
        }
    }
    let mut t2b = Acc::default();
    par_fold(twins.len(), 256, Acc::default, |i, a| {
        let (t, b, v) = &twins[i];
        let sy = |segs: Vec<SegBits>| vec![CSyl { segs, stress: 0, tone: 0 }];
        // a bundle that does not survive on its own is box (i)'s business (reported there, bundle-exact); this box is about the pair
        if roundtrip(&one(*b)).is_err() || roundtrip(&one(*v)).is_err() { a.skipped += 1; return; }
        check(&sy(vec![*b, *v]), format!("twin|{}|plain-first", t), a);
        check(&sy(vec![*v, *b]), format!("twin|{}|marked-first", t), a);
        check(&sy(vec![*b, *b, *v]), format!("twin|{}|after-long", t), a);
    }, |a| t2b.merge(a));
    r.boxes.push(json!({"box": "(ii-b) phone + its own twin with one diacritic (both orders, after a long run)", "twins": twins.len(), "twins_skipped_single_bundle_fails": t2b.skipped, "words": t2b.evals, "round_trip_ok": t2b.ok, "unrenderable": t2b.unrenderable, "failures": t2b.viols.len()}));
    r.guard(t2b.ok > 1000, "(ii-b) more than 1000 twin words round-trip");
    // (iii)
    // one plain stop, one vowel carrying a diacritic (length marks after diacritics), an affricate with a tie, a click digraph
    let inv: Vec<SegBits> = ["p", "ã", "t͡s", "ŋʘ"].iter().map(|t| seg(t)).collect();
    let n = if thorough { 4 } else { 3 };
    let mut shapes: Vec<CW> = vec![];
    for w in word_space(&inv, n) {
        if has_adjacent_equal(&w) { continue; } // length is generated explicitly below
        let nseg: usize = w.iter().map(|s| s.segs.len()).sum();
        let nsyl = w.len();
        // length pattern x stress pattern x tone pattern; thorough enumerates all, quick cycles lengths
        let len_patterns = 3usize.pow(nseg as u32);
        let st_patterns = 3usize.pow(nsyl as u32);
        let tn_patterns = 4usize.pow(nsyl as u32);
        for lp in 0..len_patterns {
            if !thorough && nseg == 3 && lp % 4 != 0 { continue; }
            if thorough && nseg == 4 && lp % 9 != 0 { continue; }
            for sp in 0..st_patterns { for tp in 0..tn_patterns {
                if nsyl >= 3 && (sp + tp) % 3 != 0 { continue; }
                let mut x: CW = vec![]; let (mut l, mut s, mut t) = (lp, sp, tp);
                for sy in &w {
                    let mut segs = vec![];
                    for b in &sy.segs { for _ in 0..(l % 3 + 1) { segs.push(*b); } l /= 3; }
                    x.push(CSyl { segs, stress: (s % 3) as u8, tone: [0, 5, 51, 1234][t % 4] }); s /= 3; t /= 4;
                }
                shapes.push(x);
            } }
        }
    }
    let mut t3 = Acc::default();
    par_fold(shapes.len(), 512, Acc::default, |i, a| check(&shapes[i], format!("shape|{}", show_cw(&shapes[i])), a), |a| t3.merge(a));
    r.boxes.push(json!({"box": format!("(iii) word shapes <= {} segments over {{p,ã,t͡s,ŋʘ}} x length x stress x tone x boundaries", n), "words": shapes.len(), "round_trip_ok": t3.ok, "unrenderable": t3.unrenderable, "failures": t3.viols.len()}));
    // (iv) BFS states
    let seeds = super::c08::seeds();
    let actions: Vec<Vec<String>> = super::c08::RULES.iter().map(|s| vec![s.to_string()]).collect();
    let no_edge = |_: &CW, _: usize, _: &Step| -> Vec<Viol> { vec![] };
    let no_state = |_: &CW| -> Option<(String, String)> { None };
    let (g, _) = bfs::explore(&seeds, &actions, 8, if thorough { 3 } else { 2 }, 12, 8, &no_edge, &no_state);
    let mut t4 = Acc::default();
    par_fold(g.states.len(), 256, Acc::default, |i, a| check(&g.states[i], format!("bfs|{}", show_cw(&g.states[i])), a), |a| t4.merge(a));
    r.boxes.push(json!({"box": "(iv) states reached by the C08 BFS", "states": g.states.len(), "round_trip_ok": t4.ok, "unrenderable": t4.unrenderable, "failures": t4.viols.len()}));
    r.guard(t4.ok > 1000, "(iv) more than 1000 BFS states round-trip");
    // (v) words typed in Americanist notation are written back in it: what is written must still be readable and stay as it is, also when the
    // Americanist letter stands inside a bigger grapheme (an affricate with a diacritic) or comes about through a rule
    let mut t5 = Acc::default();
    {
        let mut cases: Vec<(String, Vec<&str>)> = vec![];
        for lead in ["ñ", "ł", "¢"] { for aff in ["ƛ", "¢", "λ", "ł", "ñ", "t͡ɬ", "t͡s", "d͡ɮ", "ɬ", "ɲ", "ⁿt͡s"] { for dia in ["", "ʼ", "ʷ", "ʰ", "\u{32A}", "ː", "ʲ"] { for (a, b) in [("a.", "a"), ("", "a"), ("a", "")] {
            cases.push((format!("{}{}{}{}{}", lead, a, aff, dia, b), vec![]));
        } } } }
        for (w, rl) in [("ła.ta", vec!["ɬ > t͡ɬʼ"]), ("ña.ƛa", vec!["t͡ɬ > [+round]"]), ("ña.ta", vec!["t > t͡s / _a", "t͡s > [+sg]"]), ("¢a.na", vec!["n > ɲ", "t͡s > [+long]"]), ("ła", vec!["a > ⁿt͡s"])] { cases.push((w.to_string(), rl)); }
        for (w, rl) in &cases {
            t5.evals += 1;
            let groups: Vec<asca::RuleGroup> = rl.iter().map(|x| group(&[x])).collect();
            let first = guarded(budget_for(12, 40) * 2, || asca::run(&groups, &[w.clone()], &[], &[]));
            let Out::Ok(Ok(out1)) = first else { t5.unrenderable += 1; continue };   // the typed word itself is not accepted: nothing was written
            if out1[0].contains('\u{fffd}') { t5.unrenderable += 1; continue; }
            match guarded(budget_for(12, 40) * 2, || asca::run(&[], &out1, &[], &[]).map_err(|e| format!("{:?}", e))) {
                Out::Ok(Ok(out2)) if out2 == out1 => { t5.ok += 1; t5.outs.insert(hash64(&out1)); }
                o => t5.viols.push(Viol { key: format!("americanist-readback|{}|{}", w, rl.join(" ;; ")), desc: format!("`{}` under {:?} is written `{}`; reading that back gives {}", w, rl, out1[0], match &o { Out::Ok(v) => format!("{:?}", v), c => c.crash_desc().unwrap_or_default() }), case: json!({"kind": "americanist"}) }),
            }
        }
        r.boxes.push(json!({"box": "(v) words typed in Americanist notation: letters inside bigger graphemes, with diacritics, produced by rules", "words": t5.evals, "round_trip_ok": t5.ok, "not_written": t5.unrenderable, "failures": t5.viols.len()}));
        r.guard(t5.ok > 200, "(v) more than 200 Americanist words round-trip");
    }
    r.evaluations = t1.evals + t2.evals + t2b.evals + t3.evals + t4.evals + t5.evals; r.transitions = r.evaluations * 2; r.validated = t1.ok + t2.ok + t2b.ok + t3.ok + t4.ok;
    r.outcome("round_trip_ok", r.validated); r.outcome("unrenderable (contains �; outside the property)", t1.unrenderable + t2.unrenderable + t3.unrenderable + t4.unrenderable);
    let mut outs = t1.outs; outs.extend(t2.outs); outs.extend(t3.outs); outs.extend(t4.outs);
    r.nontrivial = outs.len() as u64; r.states = outs;
    r.sample(json!({"word": show_cw(&shapes[shapes.len() / 2])})); r.sample(json!({"segment": show_cw(&one(uni[uni.len() / 3]))}));
    for v in t1.viols.into_iter().chain(t2.viols).chain(t2b.viols).chain(t3.viols).chain(t4.viols).chain(t5.viols) { r.viol(v); }
    // keys are cell-exact already; the class summary groups by prefix
    r.finish()
}

pub fn replay(case: &Value) -> Result<String, String> {
    let w = cw_from_json(&case["word"]).ok_or("no word")?;
    match roundtrip(&w) { Ok(Some(t)) => Ok(format!("round trip holds: `{}`", t)), Ok(None) => Ok("unrenderable (�): outside the property".into()), Err(d) => Err(d) }
}
