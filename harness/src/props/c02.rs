//! C02 — every call returns: no panic, no abort, no endless loop.
use crate::rulegen;
use crate::util::*;
use asca::verif as av;
use serde_json::{json, Value};
use std::collections::BTreeMap;

pub const TOKENS: [&str; 48] = ["[", "]", "{", "}", "⟨", "⟩", "<", "(", ")", ":{", "}:", ">", "=", "_", "=>", "->", ",", ":", "#", "$", "%", "&", "C", "V", "1", "2", "0", "/", "//", "|", "a", "t", "ʰ", "*", "∅", "...", ";;", "+", "-", "α", "long", "voice", "tone", "stress", "place", "^", " ", "ː"];
pub const NOISE: [char; 48] = ['[', ']', '{', '}', '⟨', '⟩', '<', '>', '(', ')', ':', '=', '_', '-', ',', '#', '$', '%', '&', '/', '|', '*', '∅', '.', ';', '+', '@', '\\', '^', '~', '\'', '"', '0', '7', 'a', 't', 'C', 'α', 'ʰ', '\u{0361}', 'ː', 'ˈ', ' ', '\u{0}', '𝼆', 'ǃ', '1', 'ŋ'];

pub fn tokenize(rule: &str) -> Vec<String> {
    let cs: Vec<char> = rule.chars().collect();
    let mut out = vec![];
    let mut i = 0;
    let multi = [":{", "}:", "=>", "->", "...", "..", ";;", "//"];
    'o: while i < cs.len() {
        for m in multi {
            let mc: Vec<char> = m.chars().collect();
            if cs[i..].starts_with(&mc) { out.push(m.to_string()); i += mc.len(); continue 'o; }
        }
        if cs[i].is_ascii_alphabetic() && cs[i].is_ascii_lowercase() {
            let mut j = i; while j < cs.len() && (cs[j].is_ascii_lowercase() || cs[j] == '.') && !cs[j..].starts_with(&['.', '.']) { j += 1; }
            out.push(cs[i..j].iter().collect()); i = j; continue;
        }
        if cs[i].is_ascii_digit() { let mut j = i; while j < cs.len() && cs[j].is_ascii_digit() { j += 1; } out.push(cs[i..j].iter().collect()); i = j; continue; }
        out.push(cs[i].to_string()); i += 1;
    }
    out
}

/// all rules at token-edit distance exactly 1 (delete, duplicate, replace, insert)
pub fn mutants1(toks: &[String]) -> Vec<String> {
    let mut out = vec![];
    let join = |v: &Vec<String>| v.concat();
    for i in 0..toks.len() {
        let mut d = toks.to_vec(); d.remove(i); out.push(join(&d));
        let mut u = toks.to_vec(); u.insert(i, toks[i].clone()); out.push(join(&u));
        for t in TOKENS { if toks[i] != t { let mut r = toks.to_vec(); r[i] = t.to_string(); out.push(join(&r)); } }
    }
    for i in 0..=toks.len() { for t in TOKENS { let mut r = toks.to_vec(); r.insert(i, t.to_string()); out.push(join(&r)); } }
    out
}

pub fn corpus() -> Vec<String> {
    let mut v = vec![];
    for f in ["doc_rules.txt", "suite_rules.txt", "ie_rules.txt"] {
        let s = std::fs::read_to_string(format!("{}/fixtures/{}", crate::util::root(), f)).unwrap_or_else(|_| panic!("fixture {f} missing"));
        for l in s.lines() { if !l.trim().is_empty() && !v.contains(&l.to_string()) { v.push(l.to_string()); } }
    }
    v
}

/// Signature of a crash: for a panic the message (digits normalised) and the text of the
/// source line it came from; for a hang the loop site plus the rule type and whether the
/// input mentions a syllable boundary. Line shifts do not change it; a different call
/// site, loop or rule type does.
pub fn crash_key<T>(o: &Out<T>, rule: Option<&str>) -> String {
    // shape of the rule: type, `$` / `%`,structure in input and output, matrix output, ellipsis in the input,
    // optional / ellipsis / boundary in the environment, context / exception / both / none
    let shape = match rule {
        Some(r) => {
            let r = r.replace("//", "|");
            let (io, env) = match r.find(|c| c == '/' || c == '|') { Some(i) => (r[..i].to_string(), r[i..].to_string()), None => (r.clone(), String::new()) };
            let head = io.split('>').next().unwrap_or("").trim().to_string();
            let tail = io.splitn(2, '>').nth(1).unwrap_or("").trim().to_string();
            let ty = if head == "*" || head == "∅" { "insertion" } else if tail.starts_with('*') || tail.starts_with('∅') { "deletion" } else if tail.starts_with('&') { "metathesis" } else { "substitution" };
            let yn = |b: bool| if b { "y" } else { "n" };
            let ctx = match (env.contains('/'), env.contains('|')) { (true, true) => "both", (true, false) => "context", (false, true) => "exception", _ => "none" };
            format!("{}|in$={}|in%⟨={}|in..={}|out$={}|out%⟨={}|outmat={}|env-opt={}|env-ell={}|env-$%⟨={}|{}", ty,
                yn(head.contains('$')), yn(head.contains('%') || head.contains('⟨') || head.contains('<')), yn(head.contains("..") || head.contains('…')),
                yn(tail.contains('$')), yn(tail.contains('%') || tail.contains('⟨') || tail.contains('<')), yn(tail.contains('[')),
                yn(env.contains('(')), yn(env.contains("..") || env.contains('…')), yn(env.contains('$') || env.contains('%') || env.contains('⟨') || env.contains('<')), ctx)
        }
        None => "n/a".to_string(),
    };
    match o {
        // a panic: normalised message + text of the source line (robust to line shifts) + rule shape
        Out::Panic(m, l) => {
            let norm: String = m.chars().map(|c| if c.is_ascii_digit() { 'N' } else { c }).collect();
            format!("panic|{}|{}|{}", trunc(&norm, 70), source_line_text(l), shape)
        }
        // a hang: the loop in which the budget happens to trip is not stable (an endless outer loop contains
        // inner loops), so it is identified by the shape of the rule alone
        Out::Budget(_site) => format!("hang|{}", shape),
        Out::Ok(_) => "ok".into(),
    }
}

#[derive(Default)]
struct Acc { evals: u64, ok: u64, err: u64, crash_rules: BTreeMap<String, Vec<String>>, crashes: BTreeMap<String, (u64, Viol)>, distinct_err: std::collections::BTreeSet<u64>, maxp: u64 }
impl Acc {
    fn crash<T>(&mut self, o: &Out<T>, _family: &str, what: String, case: Value) {
        let key = crash_key(o, case["rule"].as_str());
        { let l = self.crash_rules.entry(key.clone()).or_default(); if l.len() < 2000 { l.push(case["rule"].as_str().or(case["word"].as_str()).or(case["alias"].as_str()).unwrap_or("").to_string()); } }
        let e = self.crashes.entry(key.clone()).or_insert((0, Viol { key, desc: format!("{}: {}", what, o.crash_desc().unwrap()), case }));
        e.0 += 1;
    }
    fn merge(&mut self, o: Acc) {
        self.evals += o.evals; self.ok += o.ok; self.err += o.err; self.maxp = self.maxp.max(o.maxp); self.distinct_err.extend(o.distinct_err);
        for (k, l) in o.crash_rules { let e = self.crash_rules.entry(k).or_default(); if e.len() < 4000 { e.extend(l); } }
        for (k, (n, v)) in o.crashes { let e = self.crashes.entry(k).or_insert((0, v)); e.0 += n; }
    }
}

const W8: [&str; 8] = ["a", "ta.pa", "ˈpaː.ta", "pat", "pa51.ta1234", "ŋǃa", "tat.ta", "s"];

/// a rule line through every entry point: compile + structural apply per word, then
/// run / trace_changes / get_trace_string through the public API
fn rule_case(text: &str, words: &[&str], family: &str, a: &mut Acc) {
    let tl = text.chars().count();
    a.evals += 1;
    let compiled = match guarded(budget_for(0, tl), || av::compile(&[group(&[text])])) {
        Out::Ok(Ok(c)) => c,
        Out::Ok(Err(e)) => { a.err += 1; a.distinct_err.insert(hash64(&format!("{:?}", std::mem::discriminant(&e)))); return; }
        o => { a.crash(&o, family, format!("compiling rule `{}`", text), json!({"kind": "rule", "rule": text, "words": words})); return; }
    };
    let mut sum_budget = 0;
    for w in words {
        a.evals += 1;
        let b = budget_for(w.chars().count(), tl);
        sum_budget += b;
        let Out::Ok(Ok(word)) = guarded(b, || av::parse_word(w, None)) else { continue };
        let o = guarded(b, || { let r = av::apply_group(&compiled, 0, word).is_ok(); (r, av::ticks()) });
        match &o {
            Out::Ok((true, t)) => { a.ok += 1; a.maxp = a.maxp.max(t * 1000 / b); }
            Out::Ok((false, t)) => { a.err += 1; a.maxp = a.maxp.max(t * 1000 / b); }
            _ => {
                // one crash per rule is enough (a hang is expensive to reproduce); the public entry points would only repeat it
                a.crash(&o, family, format!("applying `{}` to /{}/", text, w), json!({"kind": "rule", "rule": text, "words": [w]}));
                return;
            }
        }
    }
    // public entry points (rendering and trace paths); one phrase of two words for the trace
    let ws: Vec<String> = words.iter().map(|s| s.to_string()).collect();
    let b = sum_budget * 2 + budget_for(0, tl);
    let g = [group(&[text])];
    let o = guarded(b, || asca::run(&g, &ws, &[], &[]).is_ok());
    if !o.is_ok() { a.crash(&o, family, format!("run(`{}`, {:?})", text, words), json!({"kind": "rule", "rule": text, "words": words})); }
    let phrase = format!("{} {}", words[0], words[words.len() - 1]);
    let o = guarded(b, || asca::trace_changes(&g, phrase.clone(), &[]).is_ok());
    if !o.is_ok() { a.crash(&o, family, format!("trace_changes(`{}`, `{}`)", text, phrase), json!({"kind": "trace", "rule": text, "phrase": phrase})); }
    let o = guarded(b, || asca::get_trace_string(&g, phrase.clone(), &[]).is_ok());
    if !o.is_ok() { a.crash(&o, family, format!("get_trace_string(`{}`, `{}`)", text, phrase), json!({"kind": "trace", "rule": text, "phrase": phrase})); }
    a.evals += 3;
}

fn word_case(text: &str, family: &str, a: &mut Acc) {
    a.evals += 1;
    let o = guarded(budget_for(text.chars().count(), 0), || asca::run(&[], &[text.to_string()], &[], &[]).is_ok());
    match &o { Out::Ok(true) => a.ok += 1, Out::Ok(false) => a.err += 1, _ => a.crash(&o, family, format!("word `{}`", text.escape_debug()), json!({"kind": "word", "word": text})) }
}
fn alias_case(text: &str, into: bool, family: &str, a: &mut Acc) {
    a.evals += 1;
    let al = vec![text.to_string()];
    let words: Vec<String> = ["ta.pa", "ˈpaː.ta5", "a"].iter().map(|s| s.to_string()).collect();
    let o = guarded(budget_for(12, text.chars().count()) * 2, || if into { asca::run(&[], &words, &al, &[]).is_ok() } else { asca::run(&[], &words, &[], &al).is_ok() });
    match &o { Out::Ok(true) => a.ok += 1, Out::Ok(false) => a.err += 1, _ => a.crash(&o, family, format!("{} alias `{}`", if into { "into" } else { "from" }, text.escape_debug()), json!({"kind": "alias", "alias": text, "into": into})) }
}

fn noise_string(mut idx: usize, len: usize) -> String {
    let mut s = String::new();
    for _ in 0..len { s.push(NOISE[idx % NOISE.len()]); idx /= NOISE.len(); }
    s
}

pub fn run() -> i32 {
    let mut r = Report::new("C02");
    let thorough = r.thorough();
    r.rule = "four exhaustive families, every case through compile + Rule::apply per word and through run / trace_changes / get_trace_string: (1) every rule of rulegen(n) x hand-shaped words (thorough: all 7.7 M rules of size 4, on eight words); (1d, thorough) every three-item context / exception of five fixed skeletons; (1c, quick) every two-item environment decoration of five fixed input/output skeletons; (2) every rule at token-edit distance 1 (delete, duplicate, replace by / insert each of 48 tokens) from a frozen corpus of documented, test-suite and example-project rules x 8 words; (3) every string of <= m chars over a 48-char alphabet as rule, word, deromaniser and romaniser; (4) over-large and odd numeric literals in every position that takes digits; (6) every feature / node / suprasegmental spelling and 13 near-names x 11 value forms (binary, alpha, inverted alpha, capital alpha, last Greek letter, malformed) x 12 slots (input, output, context, exception, syllable, structure, insertion, metathesis, both alias directions) and numeric forms x 5 slots; (8) condensed rules with every combination of list lengths 1..4 for inputs / outputs and 0..4 for context / exception environments, as substitution and deletion; (7) three small grammars around constructs that keep state across a retry or a split: ellipsis inputs with a tail, syllables written in place of segments before further outputs, zero-width optionals with every count form; (5) every romaniser whose input is a sequence of 1..k elements over 11 element kinds (segments and matrices with length / stress modifiers, `$`) x 3 replacement kinds, and every deromaniser with such an output, on 10 words with long segments at syllable ends. Oracle: returns Ok or Err within the step budget 2 000 + 20 (|w|+1)(|r|+1); any panic or budget exhaustion is a violation. Non-trivial = returned Ok.".into();
    r.assumptions.push("release build semantics (debug_assert off), as shipped".into());
    r.assumptions.push("stack overflow / allocation failure would abort the check (exit code != 0,1), never pass silently".into());
    let mut tot = Acc::default();
    // ---- family 1: grammar
    let n = if thorough { 4 } else { 3 };
    let bases = rulegen::bases_upto(n);
    let words: Vec<&str> = rulegen::WC.to_vec();
    let mut f1 = Acc::default();
    par_fold(bases.len(), 4, Acc::default, |i, a| {
        let (b, rest) = &bases[i];
        for rule in rulegen::expand(b, *rest) {
            if thorough && rule.n_items() == 4 { rule_case(&rule.text(), &W8, "grammar", a); } else { rule_case(&rule.text(), &words, "grammar", a); }
        }
    }, |a| f1.merge(a));
    r.boxes.push(json!({"box": format!("1 grammar: rulegen({})", n), "calls": f1.evals, "ok": f1.ok, "err": f1.err, "crash_classes": f1.crashes.len(), "max_ticks_permille_of_budget": f1.maxp}));
    r.guard(f1.ok > 10_000 && f1.err > 100, "grammar family: both Ok and Err outcomes occur");
    tot.merge(f1);
    // ---- family 1c (quick tier; the thorough tier has all of rulegen(4)): every environment decoration of exactly two items (context, exception,
    // context + exception, environment sets, condensed environments, special environment) on five fixed input/output skeletons
    if !thorough {
        let sk: Vec<(rulegen::GenRule, usize)> = rulegen::bases_of_size(2).into_iter().filter(|(b, _)| { let t = b.text(); ["a > i", "C > *", "* > i", "V > [+long]", "% > [+stress]"].contains(&t.as_str()) }).collect();
        let mut f1c = Acc::default();
        let mut erules: Vec<String> = vec![];
        for (b, _) in &sk { for r in rulegen::expand(b, 2) { erules.push(r.text()); } }
        par_fold(erules.len(), 64, Acc::default, |i, a| rule_case(&erules[i], &words, "env2", a), |a| f1c.merge(a));
        r.boxes.push(json!({"box": "1c two-item environments on 5 skeletons", "skeletons": sk.len(), "rules": erules.len(), "calls": f1c.evals, "ok": f1c.ok, "err": f1c.err, "crash_classes": f1c.crashes.len()}));
        r.guard(sk.len() == 5 && f1c.ok > 10_000, "family 1c: five skeletons found, more than 10k calls returned Ok");
        tot.merge(f1c);
    }
    // ---- family 1d (thorough): three-item environments on the five skeletons (insertion, deletion, substitution, length, prosody): the shapes where
    // partial matches of a longer context restart, on eight words
    if thorough {
        let sk: Vec<(rulegen::GenRule, usize)> = rulegen::bases_of_size(2).into_iter().filter(|(b, _)| { let t = b.text(); ["a > i", "C > *", "* > i", "V > [+long]", "% > [+stress]"].contains(&t.as_str()) }).collect();
        let mut f1d = Acc::default();
        let mut n_rules = 0u64;
        for (b, _) in &sk {
            let erules: Vec<String> = rulegen::expand(b, 3).into_iter().filter(|r| r.ctx.len() + r.exc.len() == 1 && !r.ctx_set && !r.exc_set).map(|r| r.text()).collect();
            n_rules += erules.len() as u64;
            par_fold(erules.len(), 256, Acc::default, |i, a| rule_case(&erules[i], &W8, "env3", a), |a| f1d.merge(a));
        }
        r.boxes.push(json!({"box": "1d three-item contexts / exceptions on 5 skeletons", "rules": n_rules, "calls": f1d.evals, "ok": f1d.ok, "err": f1d.err, "crash_classes": f1d.crashes.len()}));
        tot.merge(f1d);
    }
    // ---- family 1b: cursor arithmetic (length-changing, set and variable elements in multi-element substitutions)
    let cin = ["V:[+long]", "a:[-long]", "{p,a}", "C", "V", "C=1", "[+long]", "V:[+long]=1", "V=1"];
    let cout = ["[-long]", "[+long]", "{t,i}", "i", "i:[+long]", "1", "[+voice]", "[+overlong]", "1:[-long]", "1:[+long]", "1:[-overlong]"];
    let cwords = ["taːp", "paːt.a", "taːːpat", "aːp", "tapː", "paː.pa", "ˈtaːp.ta5", "ppaːt", "ta.pa", "at"];
    let kk = if thorough { 3 } else { 2 };
    let mut crules: Vec<String> = vec![];
    for k in 2..=kk { for idx in 0..(cin.len() * cout.len()).pow(k as u32) {
        let mut q = idx; let mut i = vec![]; let mut o = vec![];
        for _ in 0..k { i.push(cin[q % cin.len()]); q /= cin.len(); o.push(cout[q % cout.len()]); q /= cout.len(); }
        crules.push(format!("{} > {}", i.join(" "), o.join(" ")));
    } }
    let mut f1b = Acc::default();
    par_fold(crules.len(), 32, Acc::default, |i, a| rule_case(&crules[i], &cwords, "cursor", a), |a| f1b.merge(a));
    r.boxes.push(json!({"box": format!("1b cursor arithmetic: {}-element substitutions over length/set/variable items", kk), "rules": crules.len(), "calls": f1b.evals, "ok": f1b.ok, "err": f1b.err, "crash_classes": f1b.crashes.len()}));
    tot.merge(f1b);
    // ---- family 2: deviations
    let mut corp = corpus();
    corp.sort_by_key(|s| tokenize(s).len());
    let take = if thorough { corp.len() } else { 40 };
    let mut f2 = Acc::default();
    let corp_used: Vec<String> = corp.into_iter().take(take).collect();
    par_fold(corp_used.len(), 1, Acc::default, |i, a| {
        let toks = tokenize(&corp_used[i]);
        rule_case(&corp_used[i], &W8, "deviation0", a);
        for m in mutants1(&toks) { rule_case(&m, &W8, "deviation1", a); }
    }, |a| f2.merge(a));
    r.boxes.push(json!({"box": "2 deviations: mut(1) of corpus", "corpus_rules": corp_used.len(), "calls": f2.evals, "ok": f2.ok, "err": f2.err, "crash_classes": f2.crashes.len()}));
    r.guard(f2.ok > 1000 && f2.err > 1000, "deviation family: both Ok and Err outcomes occur");
    tot.merge(f2);
    // ---- family 3: raw noise
    let m = if thorough { 4 } else { 3 };
    let mut f3 = Acc::default();
    for len in 1..=m {
        let total = NOISE.len().pow(len as u32);
        par_fold(total, 4096, Acc::default, |i, a| {
            let s = noise_string(i, len);
            rule_case(&s, &["ta.pa", "a"], "noise-rule", a);
            word_case(&s, "noise-word", a);
            alias_case(&s, true, "noise-into", a);
            alias_case(&s, false, "noise-from", a);
        }, |a| f3.merge(a));
    }
    r.boxes.push(json!({"box": format!("3 raw noise: all strings <= {} chars over 48 chars x 4 roles", m), "calls": f3.evals, "ok": f3.ok, "err": f3.err, "crash_classes": f3.crashes.len()}));
    tot.merge(f3);
    // ---- family 5: alias grammar (romaniser inputs of 1..k elements with modifiers, deromaniser outputs likewise)
    let rin = ["a", "a:[+long]", "V:[+long]", "[+nasal]", "n:[+stress]", "V", "t:[-long]", "[+long]", "a:[+overlong]", "C:[+long, +stress]", "$"];
    let rout = ["Q", "+q", "*"];
    let awords: Vec<String> = ["ˈaː", "ˈkaː.na", "taːn", "ˈtaːn.ta", "an", "nː", "taːː", "a", "ˈna.taː", "kan.ta5"].iter().map(|s| s.to_string()).collect();
    let ak = if thorough { 3 } else { 2 };
    let mut alines: Vec<(String, bool)> = vec![];
    for k in 1..=ak { for idx in 0..rin.len().pow(k as u32) {
        let mut q = idx; let mut v = vec![]; for _ in 0..k { v.push(rin[q % rin.len()]); q /= rin.len(); }
        for o in rout { alines.push((format!("{} > {}", v.join(""), o), false)); }
        // the same element sequence as a deromaniser output
        if !v.contains(&"$") && !v.contains(&"V") && !v.contains(&"[+nasal]") && !v.contains(&"V:[+long]") && !v.contains(&"[+long]") && !v.contains(&"C:[+long, +stress]") { alines.push((format!("Q > {}", v.join("")), true)); alines.push((format!("+Q > {}", v.join("")), true)); }
    } }
    let mut f5 = Acc::default();
    par_fold(alines.len(), 16, Acc::default, |i, a| {
        let (line, into) = &alines[i];
        let al = vec![line.clone()];
        for w in &awords {
            a.evals += 1;
            let word = if *into { w.replace('a', "Q") } else { w.clone() };
            let o = guarded(budget_for(word.chars().count() + 4, line.chars().count()) * 2, || if *into { asca::run(&[], &[word.clone()], &al, &[]).is_ok() } else { asca::run(&[], &[word.clone()], &[], &al).is_ok() });
            match &o { Out::Ok(true) => a.ok += 1, Out::Ok(false) => a.err += 1, _ => { a.crash(&o, "alias-grammar", format!("{} alias `{}` with word `{}`", if *into { "into" } else { "from" }, line, word), json!({"kind": "alias", "alias": line, "into": into, "word": word})); break; } }
        }
    }, |a| f5.merge(a));
    r.boxes.push(json!({"box": format!("5 alias grammar: romaniser inputs / deromaniser outputs of <= {} elements", ak), "alias_lines": alines.len(), "calls": f5.evals, "ok": f5.ok, "err": f5.err, "crash_classes": f5.crashes.len()}));
    r.guard(f5.ok > 1000, "alias family: more than 1000 calls returned Ok");
    tot.merge(f5);
    // ---- family 6: modifier grammar — every feature / node / suprasegmental spelling (plus near-names) x every value form x every slot
    let syn: Value = serde_json::from_str(&std::fs::read_to_string(format!("{}/fixtures/feature_synonyms.json", crate::util::root())).expect("feature_synonyms fixture")).expect("fixture json");
    let mut names: Vec<String> = vec![];
    for (_, v) in syn.as_object().expect("fixture object") { for sp in v["spellings"].as_array().expect("spellings") { names.push(sp.as_str().unwrap().to_string()); } }
    for extra in ["tone", "ton", "tn", "tne", "length", "len", "syllable", "seg", "xyz", "PLACE", "Voice", "t", "α"] { names.push(extra.to_string()); }
    let vals = ["+", "-", "α", "-α", "A", "-A", "ω", "-ω", "+α", "αβ", ""];
    let mut mrules: Vec<(String, u8)> = vec![];
    for nm in &names {
        for v in vals {
            let m = format!("[{}{}]", v, nm);
            for t in [format!("a > {}", m), format!("{} > e", m), format!("a > e / _{}", m), format!("a > e | {}_", m), format!("%:{} > [+stress]", m), format!("a > e / _%:{}", m), format!("C:{} > e / _{}", m, m), format!("⟨C:{}a⟩ > * / _#", m), format!("* > a:{} / _#", m), format!("a {} > &", m)] { mrules.push((t, 0)); }
            mrules.push((format!("x > a:{}", m), 1)); mrules.push((format!("a:{} > x", m), 2));
        }
        for num in ["5", "51", "0", "α"] {
            let m = format!("[{}: {}]", nm, num);
            for t in [format!("a > {}", m), format!("%:{} > [+stress]", m), format!("a > e / _{}", m)] { mrules.push((t, 0)); }
            mrules.push((format!("x > a:{}", m), 1)); mrules.push((format!("a:{} > x", m), 2));
        }
    }
    let mut f6 = Acc::default();
    par_fold(mrules.len(), 64, Acc::default, |i, a| match mrules[i].1 { 0 => rule_case(&mrules[i].0, &W8, "modifier", a), 1 => alias_case(&mrules[i].0, true, "modifier-into", a), _ => alias_case(&mrules[i].0, false, "modifier-from", a) }, |a| f6.merge(a));
    r.boxes.push(json!({"box": "6 modifier grammar: every feature/node/supra spelling + near-names x 11 value forms x 12 slots, numeric forms x 5 slots", "names": names.len(), "lines": mrules.len(), "calls": f6.evals, "ok": f6.ok, "err": f6.err, "crash_classes": f6.crashes.len()}));
    r.guard(f6.ok > 1000 && f6.err > 1000, "modifier family: both Ok and Err outcomes occur");
    tot.merge(f6);
    // ---- family 7: three small grammars around constructs that keep state across a retry or a split
    let mut f7 = Acc::default();
    let mut r7: Vec<String> = vec![];
    // (a) an ellipsis in the input between / before two further items (each retry of the tail must start from a clean slate), all rule types
    let el = ["a", "t", "C", "V", "[]"];
    for x in el { for y in el { for z in el { for o in ["*", "&", "i"] {
        r7.push(format!("{} ... {} {} > {}", x, y, z, o)); r7.push(format!("{} {} ... {} > {}", x, y, z, o)); r7.push(format!("{} ... {} ... {} > {}", x, y, z, o)); r7.push(format!("{} ... {} {} {} > {}", x, y, y, z, o));
    } } } }
    // (b) a syllable (variable or structure) written where a segment stood, followed by further output items
    for x in ["a", "t", "C", "V"] { for y in ["a", "t", "C", "V"] { for z in ["i", "t", "[+voice]", "2"] {
        r7.push(format!("{} {}=2 > 1 {} / %=1 _", x, y, z)); r7.push(format!("{} {}=2 > {} 1 / _ %=1", x, y, z)); r7.push(format!("{} {}=2 {} > 1 {} 2 / %=1 _", x, y, x, z)); r7.push(format!("{} {}=2 > ⟨ta⟩ {} 1 / %=1 _", x, y, z));
    } } }
    // (c) optionals whose body consumes nothing, with every count form, in every environment position
    for body in ["#", "$", "", "$ $"] { for cnt in ["", ",0", ",1", ",5", ",3:", ",2:4", ",9999999999999", ",9999999999999:", ",0:9999999999999"] {
        let o = format!("({}{})", body, cnt);
        for t in [format!("a > e / _ {}", o), format!("a > e / {} _", o), format!("a > e / _ {} t", o), format!("a > e / t {} _", o), format!("a > e | _ {}", o), format!("* > e / {} _", o), format!("* > e / _ {} a", o), format!("a > * / _ {} #", o), format!("a t > & / {} _", o)] { r7.push(t); }
    } }
    for x in ["a", "t", "C", "V", "[]"] { for y in ["a", "t", "C", "V"] { for z in ["i", "t", "[+voice]", "i:[+long]", "$"] { r7.push(format!("{} {} > ⟨ta⟩ {}", x, y, z)); r7.push(format!("{} {} {} > ⟨ta⟩ {} {}", x, y, x, z, z)); } } }
    // optionals whose content is a set with a zero-width alternative (`({a,$},0)`): a repetition that consumed a segment can be followed by one that
    // consumes nothing, any number of times
    for st in ["{a,$}", "{$,a}", "{a,#}", "{#,a}", "{C,$}", "{$,%}"] { for cnt in ["0", "0:3", "1:", "1:0", "2"] { for tail in ["x", "", "t", "#"] {
        r7.push(format!("t > d / _({},{}){}", st, cnt, tail));
        r7.push(format!("t > d / {}({},{})_", tail, st, cnt));
        r7.push(format!("* > e / _({},{}){}", st, cnt, tail));
    } } }
    let w7 = ["ta.pa", "ta", "pi.at", "a.p.t.t.t.a", "ta.pa.ta.ta.ta", "pat", "a.t.t.t.a", "tatata", "ta.ta.ta", "attta", "ra.lo.la", "k.at", "ta.tat", "a", "a.ta", "ˈpaː.ta5"];
    par_fold(r7.len(), 32, Acc::default, |i, a| rule_case(&r7[i], &w7, "stateful", a), |a| f7.merge(a));
    r.boxes.push(json!({"box": "7 ellipsis inputs with a tail / syllables written in place of segments / zero-width optionals with counts", "rules": r7.len(), "calls": f7.evals, "ok": f7.ok, "err": f7.err, "crash_classes": f7.crashes.len()}));
    r.guard(f7.ok > 5_000, "family 7: more than 5000 calls returned Ok");
    tot.merge(f7);
    // ---- family 8: condensed rules with every combination of list lengths (balanced or not): inputs, outputs, context environments, exception
    // environments of 1..4 (0..4) entries each, as substitution and as deletion; an unbalanced rule is an error value, never a crash
    let mut f8 = Acc::default();
    let mut r8: Vec<String> = vec![];
    let (ins8, outs8, ctx8, exc8) = (["p", "t", "k", "q"], ["b", "d", "ɡ", "x"], ["_a", "_i", "a_", "_,u"], ["_p", "_#", "t_", "_,k"]);
    for ni in 1..=4 { for no in 1..=4 { for nc in 0..=4 { for ne in 0..=4 {
        let mut t = format!("{} > {}", ins8[..ni].join(", "), outs8[..no].join(", "));
        if nc > 0 { t += &format!(" / {}", ctx8[..nc].join(", ")); }
        if ne > 0 { t += &format!(" | {}", exc8[..ne].join(", ")); }
        r8.push(t);
        if no == 1 { let mut d = format!("{} > *", ins8[..ni].join(", ")); if nc > 0 { d += &format!(" / {}", ctx8[..nc].join(", ")); } if ne > 0 { d += &format!(" // {}", exc8[..ne].join(", ")); } r8.push(d); }
    } } } }
    let w8 = ["pa.ti.ku", "ta", "ap.ta", "qa.pa", "a"];
    par_fold(r8.len(), 32, Acc::default, |i, a| rule_case(&r8[i], &w8, "condensed-lengths", a), |a| f8.merge(a));
    r.boxes.push(json!({"box": "8 condensed rules, all list-length combinations", "rules": r8.len(), "calls": f8.evals, "ok": f8.ok, "err": f8.err, "crash_classes": f8.crashes.len()}));
    r.guard(f8.ok > 500 && f8.err > 200, "family 8: balanced rules return Ok, unbalanced ones Err");
    tot.merge(f8);
    // ---- family 9: metathesis over segments, boundaries and syllables: every input of 2..4 items over {a, b, C, $, %, ...} with `> &`, with and
    // without a context. Each swapped pair is applied in place, so an earlier pair can move what a later pair points to
    let mut f9 = Acc::default();
    let mut r9: Vec<String> = vec![];
    let it9 = ["a", "b", "C", "$", "%", "..."];
    for n in 2..=4usize { for idx in 0..it9.len().pow(n as u32) {
        let mut q = idx; let mut v = vec![]; for _ in 0..n { v.push(it9[q % it9.len()]); q /= it9.len(); }
        if v[0] == "..." || v[n - 1] == "..." || v.windows(2).any(|p| p[0] == "..." && p[1] == "...") { continue; }
        let t = v.join(" ");
        r9.push(format!("{} > &", t));
        if n <= 3 { r9.push(format!("{} > & / _ #", t)); r9.push(format!("{} > & / $ _", t)); }
    } }
    let w9 = ["ab.c", "a.b.c", "ab", "abc", "a.b", "ab.ab", "ba.ab.a", "a", "ab.c.d", "ˈa.b5", "aːb.c", "a.bː"];
    par_fold(r9.len(), 32, Acc::default, |i, a| rule_case(&r9[i], &w9, "metathesis", a), |a| f9.merge(a));
    r.boxes.push(json!({"box": "9 metathesis over segments, boundaries, syllables and ellipses", "rules": r9.len(), "calls": f9.evals, "ok": f9.ok, "err": f9.err, "crash_classes": f9.crashes.len()}));
    r.guard(f9.ok > 5_000, "family 9: more than 5000 calls returned Ok");
    tot.merge(f9);
    // ---- family 4: numeric literals
    let nums = ["0", "1", "00", "007", "4294967296", "18446744073709551616", "99999999999999999999", "65536", "99999"];
    let mut f4 = Acc::default();
    for nn in nums {
        for t in [format!("C={} > {}", nn, nn), format!("V={} C > {} / _#", nn, nn), format!("a > e / (C,{})_", nn), format!("a > e / (C,{}:{})_", nn, nn), format!("a > e / (C,1:{})_", nn), format!("a > e / (C,{}:1)_", nn),
                  format!("a > [tone:{}]", nn), format!("%:[tone:{}] > [tone:1]", nn), format!("a > {}", nn), format!("{} > a", nn), format!("* > {} / _#", nn), format!("a > e / {}_", nn), format!("⟨C={}a⟩ > {}", nn, nn), format!("{{C={},V}} > {}", nn, nn), format!("%={} > * / {}_", nn, nn)] {
            rule_case(&t, &W8, "numeric-rule", &mut f4);
        }
        word_case(&format!("ta{}", nn), "numeric-word", &mut f4);
        word_case(&format!("ta{}.pa{}", nn, nn), "numeric-word", &mut f4);
        for t in [format!("a:[tone:{}] > x", nn), format!("a > x{}", nn), format!("a:[+long]{} > x", nn)] { alias_case(&t, false, "numeric-from", &mut f4); }
        for t in [format!("x > a:[tone:{}]", nn), format!("x{} > a", nn)] { alias_case(&t, true, "numeric-into", &mut f4); }
    }
    r.boxes.push(json!({"box": "4 numeric literals", "calls": f4.evals, "ok": f4.ok, "err": f4.err, "crash_classes": f4.crashes.len()}));
    tot.merge(f4);

    r.evaluations = tot.evals; r.transitions = tot.evals; r.validated = tot.evals; r.nontrivial = tot.ok;
    r.states_count_override = Some(tot.distinct_err.len() as u64 + 2);
    r.outcome("ok", tot.ok); r.outcome("err", tot.err); r.outcome("crash_cases", tot.crashes.values().map(|x| x.0).sum());
    r.extra.insert("crash_classes".into(), json!(tot.crashes.iter().map(|(k, v)| json!({"class": k, "cases": v.0, "example": v.1.desc})).collect::<Vec<_>>()));
    if std::env::var("VERIF_DUMP").is_ok() { let _ = std::fs::write(format!("{}/target/c02_crash_rules.json", crate::util::root()), serde_json::to_string_pretty(&json!(tot.crash_rules)).unwrap()); }
    r.sample(json!({"family": "deviation1", "rule": mutants1(&tokenize("a > e / _#"))[7]}));
    r.sample(json!({"family": "noise", "string": noise_string(12345, 3)}));
    r.sample(json!({"family": "grammar", "rule": rulegen::rules_of_size(3)[777].text()}));
    for (_, (_, v)) in tot.crashes { r.viol(v); }
    r.finish()
}

pub fn replay(case: &Value) -> Result<String, String> {
    let mut a = Acc::default();
    match case["kind"].as_str() {
        Some("rule") => { let ws: Vec<&str> = case["words"].as_array().map(|v| v.iter().filter_map(|x| x.as_str()).collect()).unwrap_or_default(); rule_case(case["rule"].as_str().unwrap_or(""), if ws.is_empty() { &W8 } else { &ws }, "replay", &mut a); }
        Some("trace") => { rule_case(case["rule"].as_str().unwrap_or(""), &W8, "replay", &mut a); }
        Some("word") => word_case(case["word"].as_str().unwrap_or(""), "replay", &mut a),
        Some("alias") if case["word"].is_string() => {
            let al = vec![case["alias"].as_str().unwrap_or("").to_string()]; let w = case["word"].as_str().unwrap_or("").to_string(); let into = case["into"].as_bool().unwrap_or(true);
            let o = guarded(1_000_000, || if into { asca::run(&[], &[w.clone()], &al, &[]).is_ok() } else { asca::run(&[], &[w.clone()], &[], &al).is_ok() });
            if !o.is_ok() { a.crash(&o, "replay", format!("alias `{}` with word `{}`", al[0], w), case.clone()); }
        }
        Some("alias") => alias_case(case["alias"].as_str().unwrap_or(""), case["into"].as_bool().unwrap_or(true), "replay", &mut a),
        _ => return Err("unknown case".into()),
    }
    if let Some((_, (_, v))) = a.crashes.iter().next() { Err(v.desc.clone()) } else { Ok(format!("returned (ok={}, err={})", a.ok, a.err)) }
}
