//! C06 — a rule that cannot match leaves the word untouched.
use crate::rulegen::{self, GenRule};
use crate::util::*;
use asca::verif as av;
use serde_json::{json, Value};

const PLANT: &str = "ɮ";

/// plant a mandatory literal /ɮ/ (which occurs in no word): in every comma alternative of
/// the input; for insertion rules in every environment of the context.
/// the structure items of the grammar with /ɮ/ as a further mandatory member, at the end (0) or at the start (1)
fn planted_structure(item: &str, at_start: bool) -> Option<&'static str> {
    Some(match (item, at_start) {
        ("⟨CV⟩", false) => "⟨CVɮ⟩", ("⟨CV⟩", true) => "⟨ɮCV⟩",
        ("⟨C...⟩", false) => "⟨C...ɮ⟩", ("⟨C...⟩", true) => "⟨ɮC...⟩",
        ("⟨..V⟩=1", false) => "⟨..Vɮ⟩=1", ("⟨..V⟩=1", true) => "⟨ɮ..V⟩=1",
        _ => return None,
    })
}

pub fn plant(r: &GenRule, variant: usize) -> Option<GenRule> {
    let mut p = r.clone();
    if variant >= 5 {
        // the literal with a matrix (`ɮ:[-long]`, `ɮ:[+long]`): it stands for /ɮ/ itself, short or long, not for its labialised, palatalised or
        // pharyngealised twins, which do occur in four of the words
        let lit: &'static str = if variant == 5 { "ɮ:[-long]" } else { "ɮ:[+long]" };
        if r.is_insertion() {
            if let Some(x) = p.special.as_mut() { x.push(lit); return Some(p); }
            if p.ctx.is_empty() { return None; }
            for e in p.ctx.iter_mut() { let at = if e.1.last() == Some(&"#") { e.1.len() - 1 } else { e.1.len() }; e.1.insert(at, lit); }
        } else { for alt in p.ins.iter_mut() { alt.push(lit); } }
        return Some(p);
    }
    if variant >= 3 {
        // inside a structure: every input alternative (insertion: every context environment) must hold a structure, whose first one gets the plant
        let at_start = variant == 4;
        let plant_in = |items: &mut Vec<&'static str>| -> bool { for it in items.iter_mut() { if let Some(x) = planted_structure(it, at_start) { *it = x; return true; } } false };
        if r.is_insertion() {
            if let Some(x) = p.special.as_mut() { return if plant_in(x) { Some(p) } else { None }; }
            if p.ctx.is_empty() { return None; }
            for e in p.ctx.iter_mut() { if !(plant_in(&mut e.0) || plant_in(&mut e.1)) { return None; } }
        } else {
            for alt in p.ins.iter_mut() { if !plant_in(alt) { return None; } }
        }
        return Some(p);
    }
    if r.is_insertion() {
        if variant == 2 { return None; }
        if let Some(x) = p.special.as_mut() { if variant == 0 { x.push(PLANT); } else { x.insert(0, PLANT); } return Some(p); }
        if p.ctx.is_empty() { return None; }
        for e in p.ctx.iter_mut() {
            if variant == 0 {
                // end of the after side, but inside a trailing `#`
                let at = if e.1.last() == Some(&"#") { e.1.len() - 1 } else { e.1.len() };
                e.1.insert(at, PLANT);
            } else {
                let at = if e.0.first() == Some(&"#") { 1 } else { 0 };
                e.0.insert(at, PLANT);
            }
        }
    } else {
        // variant 2: before the last input item (a mandatory item in the middle must count as well)
        if variant == 2 && p.ins.iter().all(|alt| alt.len() < 2) { return None; }
        for alt in p.ins.iter_mut() { match variant { 0 => alt.push(PLANT), 1 => alt.insert(0, PLANT), _ => { let at = alt.len().saturating_sub(1); alt.insert(at, PLANT); } } }
    }
    Some(p)
}

/// condensed rules whose alternatives are of different types (insertion next to substitution / deletion /
/// metathesis), each alternative with its own output and its own or a shared context; /ɮ/ planted in the
/// input of every non-insertion alternative and in the context of every insertion alternative
pub fn mixed_condensed() -> Vec<String> {
    let alts = ["*", "a", "t", "C", "V", "{p,a}", "%", "$", "C=1"];
    let outs_ins = ["i", "t", "⟨ta⟩"];
    let outs_other = ["i", "t", "[+voice]", "*", "&"];
    // environments as (before, after); the planted segment goes to the far end of the after side (variant 0) or of the before side (variant 1)
    let envs: [(&str, &str); 5] = [("", "t"), ("a", ""), ("", "#"), ("#", ""), ("a", "t")];
    let mut v = vec![];
    for a1 in alts { for a2 in alts {
        if a1 != "*" && a2 != "*" { continue; }
        let o1s: &[&str] = if a1 == "*" { &outs_ins } else { &outs_other };
        let o2s: &[&str] = if a2 == "*" { &outs_ins } else { &outs_other };
        for o1 in o1s { for o2 in o2s { for variant in 0..2 {
            let inp = |a: &str| if a == "*" { "*".to_string() } else if variant == 0 { format!("{} {}", a, PLANT) } else { format!("{} {}", PLANT, a) };
            let env = |a: &str, e: &(&str, &str)| -> String {
                if a != "*" { return format!("{} _ {}", e.0, e.1).trim().to_string(); }
                if variant == 0 { if e.1 == "#" { format!("{} _ {} #", e.0, PLANT) } else { format!("{} _ {} {}", e.0, e.1, PLANT) } }
                else if e.0 == "#" { format!("# {} _ {}", PLANT, e.1) } else { format!("{} {} _ {}", PLANT, e.0, e.1) }
            };
            for e1 in &envs { for e2 in &envs {
                v.push(format!("{}, {} > {}, {} / {}, {}", inp(a1), inp(a2), o1, o2, env(a1, e1).trim(), env(a2, e2).trim()));
            } }
            // one shared context: it serves the insertion alternative, so it carries the plant
            for e in &envs { v.push(format!("{}, {} > {}, {} / {}", inp(a1), inp(a2), o1, o2, env("*", e).trim())); }
        } } }
    } }
    v
}

pub fn decorated_words(thorough: bool) -> Vec<(String, CW)> {
    let mut out: Vec<(String, CW)> = vec![];
    for t in rulegen::WC { if let Out::Ok(Ok(w)) = guarded(1_000_000, || av::parse_word(t, None)) { out.push((t.to_string(), cw_of(&w))); } }
    // near misses of the planted literal: /ɮ/ with a secondary articulation, short and long
    for t in ["taɮʷ", "ɮʲa.ta", "paɮˤ.ta", "taɮʷːa"] { if let Out::Ok(Ok(w)) = guarded(1_000_000, || av::parse_word(t, None)) { out.push((t.to_string(), cw_of(&w))); } }
    if thorough {
        let inv: Vec<SegBits> = ["p", "t", "a", "i"].iter().map(|t| seg(t)).collect();
        for (k, mut w) in word_space(&inv, 3).into_iter().enumerate() {
            // decorate deterministically: stress / tone patterns cycle with the index
            for (i, sy) in w.iter_mut().enumerate() { sy.stress = ((k + i) % 3) as u8; sy.tone = [0, 5, 51, 1234][(k / 3 + i) % 4]; }
            out.push((show_cw(&w), w));
        }
    }
    out
}

struct Acc { evals: u64, ok_same: u64, errs: u64, rejected: u64, crashed: u64, viols: Vec<Viol>, kinds: std::collections::BTreeMap<String, u64> }
fn acc() -> Acc { Acc { evals: 0, ok_same: 0, errs: 0, rejected: 0, crashed: 0, viols: vec![], kinds: Default::default() } }

fn eval_text(text: &str, words: &[(String, CW)], a: &mut Acc) {
    let compiled = match guarded(5_000_000, || av::compile(&[group(&[text])])) {
        Out::Ok(Ok(c)) => c,
        Out::Ok(Err(_)) => { a.rejected += 1; return; }
        _ => { a.crashed += 1; return; } // C02's business
    };
    for (wt, w) in words {
        a.evals += 1;
        let got = guarded(budget_for(wt.chars().count(), text.chars().count()), || av::apply_group(&compiled, 0, word_of(w)).map(|x| cw_of(&x)));
        match got {
            Out::Ok(Ok(g)) => {
                if g == *w { a.ok_same += 1; } else {
                    a.viols.push(Viol { key: format!("{}|{}", text, wt), desc: format!("`{}` cannot match /{}/ (no plain /ɮ/ in it) but returned /{}/", text, wt, show_cw(&g)), case: json!({"rule": text, "word": cw_json(w)}) });
                }
            }
            Out::Ok(Err(_)) => a.errs += 1,
            _ => a.crashed += 1,
        }
    }
}

pub fn run() -> i32 {
    let mut r = Report::new("C06");
    let n = if r.thorough() { 4 } else { 3 };
    r.rule = format!("every rule of rulegen({}) (full documented grammar: sets, optionals, ellipses, structures, variables, alphas, environment sets, special environment, condensed rules) (quick: plus every insertion rule of size 4 and every size-4 rule with an ellipsis inside its input) with a mandatory literal /ɮ/ planted in every input alternative (insertion: in every context environment), at the end, at the start and before the last input item, and as an extra member at the end / start of a structure ⟨..⟩ of the input (insertion: of the context), and as `ɮ:[-long]` / `ɮ:[+long]` at the end (four of the words hold /ɮʷ ɮʲ ɮˤ ɮʷː/, which are not /ɮ/); plus every condensed rule that pairs an insertion alternative with an insertion / substitution / deletion / metathesis alternative over 9 inputs x 3-5 outputs x 5 environments (own or shared), planted likewise; plus blank and comment-only lines; x hand-shaped words{}; whenever the call returns Ok the structural word must equal the input. Non-trivial = rule compiled and the call returned Ok.", n, if r.thorough() { " and all decorated words of W(I4,3)" } else { "" });
    r.assumptions.push("thorough: size-4 rules are restricted to those containing a structure, %, $, an ellipsis, an optional, a variable, or an insertion/deletion/metathesis output (the cursor-logic constructs); all size <= 3 rules are included".into());
    let words = decorated_words(r.thorough());
    let mut bases = rulegen::bases_upto(n);
    // quick tier: the insertion rules of size 4 as well (two environment items: the shapes where a partial context match can be accepted)
    if !r.thorough() { bases.extend(rulegen::bases_of_size(4).into_iter().filter(|(b, rest)| b.is_insertion() && *rest == 2)); }
    // quick tier: also the size-4 rules whose input holds an ellipsis between two items (`X ... Y > o`): with the planted literal after
    // them these are the shapes in which every element after the ellipsis has to be tested (defect a19479e was found by the thorough tier only)
    if !r.thorough() { bases.extend(rulegen::bases_of_size(4).into_iter().filter(|(b, rest)| *rest == 0 && b.ins.len() == 1 && b.ins[0].len() == 3 && b.ins[0][1] == "...")); }
    let mut tot = acc();
    let thorough = r.thorough();
    par_fold(bases.len(), 4, acc, |i, a| {
        let (b, rest) = &bases[i];
        for rule in rulegen::expand(b, *rest) {
            if thorough && rule.n_items() == 4 && !rule.has(&["⟨", "%", "$", "...", "(", "=", "*", "&", " 1"]) { continue; }
            for variant in 0..7 {
                let Some(p) = plant(&rule, variant) else { continue };
                let text = p.text();
                let k = if p.is_insertion() { "insertion" } else if text.contains("> *") { "deletion" } else if text.contains("> &") { "metathesis" } else { "substitution" };
                let before = a.ok_same;
                eval_text(&text, &words, a);
                *a.kinds.entry(k.to_string()).or_insert(0) += a.ok_same - before;
            }
        }
    }, |a| { tot.evals += a.evals; tot.ok_same += a.ok_same; tot.errs += a.errs; tot.rejected += a.rejected; tot.crashed += a.crashed; tot.viols.extend(a.viols); for (k, v) in a.kinds { *tot.kinds.entry(k).or_insert(0) += v; } });
    // condensed rules that mix rule types
    let mixed = mixed_condensed();
    let before_mixed = tot.ok_same;
    let mut mt = acc();
    par_fold(mixed.len(), 64, acc, |i, a| eval_text(&mixed[i], &words, a), |a| { mt.evals += a.evals; mt.ok_same += a.ok_same; mt.errs += a.errs; mt.rejected += a.rejected; mt.crashed += a.crashed; mt.viols.extend(a.viols); });
    r.boxes.push(json!({"box": "condensed rules mixing insertion with substitution / deletion / metathesis alternatives, planted", "rules": mixed.len(), "applications": mt.evals, "ok_unchanged": mt.ok_same, "runtime_errors": mt.errs, "rejected": mt.rejected, "crashed": mt.crashed}));
    r.guard(mt.ok_same > 100_000, "mixed condensed rules: more than 100k applications returned Ok");
    tot.evals += mt.evals; tot.ok_same += mt.ok_same; tot.errs += mt.errs; tot.rejected += mt.rejected; tot.crashed += mt.crashed; tot.viols.extend(mt.viols);
    // the planted literal inside a MANDATORY optional (minimum >= 1) of the rule: an optional that has to be taken at least once requires its
    // segment just as a bare item does. All sequences of 1..3 environment items over {(ɮ,1:2), (ɮ t,2:3), (ɮ,1:), (t ɮ,1:1), #, $, C, (C)} that
    // contain one of the mandatory ones, after and before the underline, for insertion / substitution / deletion
    let opt_items = ["(ɮ,1:2)", "(ɮ t,2:3)", "(ɮ,1:)", "(t ɮ,1:1)", "#", "$", "C", "(C)",
        // a bare literal behind a set whose alternatives overlap or are zero-width: every alternative is tried, none of them lets the literal be skipped
        "ɮ", "{a, V}", "{V, a}", "{$, t}", "{C, t}"];
    let mut opt_rules: Vec<String> = vec![];
    for a in 0..opt_items.len() { for b in 0..=opt_items.len() { for c in 0..=opt_items.len() {
        if b == opt_items.len() && c != opt_items.len() { continue; }
        let mut seq = vec![opt_items[a]]; if b < opt_items.len() { seq.push(opt_items[b]); } if c < opt_items.len() { seq.push(opt_items[c]); }
        if !seq.iter().any(|x| x.contains('ɮ')) { continue; }
        // `#` only at the outer end of a side
        if seq.iter().enumerate().any(|(i, x)| *x == "#" && i + 1 != seq.len()) { continue; }
        if seq.iter().filter(|x| x.starts_with('{')).count() > 1 { continue; }
        let after = seq.join(" "); let before: String = seq.iter().rev().map(|x| match *x { "(ɮ t,2:3)" => "(t ɮ,2:3)", "(t ɮ,1:1)" => "(ɮ t,1:1)", y => y }).collect::<Vec<_>>().join(" ");
        for (lhs, rhs) in [("*", "e"), ("*", "⟨ta⟩"), ("a", "e"), ("a", "*"), ("V", "[+nasal]")] {
            opt_rules.push(format!("{} > {} / _ {}", lhs, rhs, after));
            opt_rules.push(format!("{} > {} / {} _", lhs, rhs, before));
            if lhs == "*" { opt_rules.push(format!("{} > {} / t _ {}", lhs, rhs, after)); }
        }
    } } }
    opt_rules.sort(); opt_rules.dedup();
    let mut ot = acc();
    par_fold(opt_rules.len(), 64, acc, |i, a| eval_text(&opt_rules[i], &words, a), |a| { ot.evals += a.evals; ot.ok_same += a.ok_same; ot.errs += a.errs; ot.rejected += a.rejected; ot.crashed += a.crashed; ot.viols.extend(a.viols); });
    r.boxes.push(json!({"box": "the literal inside a mandatory optional of the environment (insertion, substitution, deletion; after and before the underline)", "rules": opt_rules.len(), "applications": ot.evals, "ok_unchanged": ot.ok_same, "runtime_errors": ot.errs, "rejected": ot.rejected, "crashed": ot.crashed}));
    r.guard(ot.ok_same > 20_000, "mandatory-optional box: more than 20k applications returned Ok");
    tot.evals += ot.evals; tot.ok_same += ot.ok_same; tot.errs += ot.errs; tot.rejected += ot.rejected; tot.crashed += ot.crashed; tot.viols.extend(ot.viols);
    let _ = before_mixed;
    // blank and comment-only lines
    for t in ["", "   ", ";; only a comment", "  ;; indented comment"] { eval_text(t, &words, &mut tot); }
    // ... and whole groups made of such lines (or of no line at all), in front of / between groups that do change the word: the tracer must never
    // name them as the group that changed it, and with or without them the run is the same
    let noops: Vec<Vec<&str>> = vec![vec![], vec![""], vec![";; a > o"], vec![";; a > o", "   "], vec!["", ";; x"]];
    let real = ["a > e", "t > d / V_V", "* > i / _#", "V > [+long] / _#"];
    let mut tn = 0u64; let mut tn_ok = 0u64;
    for np in &noops { for r1 in real { for r2 in real { for (wt, _) in words.iter().take(12) {
        let mk = |name: &str, rs: &[&str]| asca::RuleGroup { name: name.to_string(), rule: rs.iter().map(|x| x.to_string()).collect(), description: String::new() };
        for groups in [vec![mk("noop", np), mk("first", &[r1])], vec![mk("first", &[r1]), mk("noop", np), mk("second", &[r2])], vec![mk("noop", np), mk("noop", np), mk("first", &[r1])]] {
            tn += 1;
            let without: Vec<asca::RuleGroup> = groups.iter().filter(|g| g.name != "noop").cloned().collect();
            let b = budget_for(wt.chars().count() + 2, 60) * 4;
            let (Out::Ok(Ok(tr)), Out::Ok(Ok(ts)), Out::Ok(Ok(r_with)), Out::Ok(Ok(r_without))) = (guarded(b, || asca::trace_changes(&groups, wt.clone(), &[])), guarded(b, || asca::get_trace_string(&groups, wt.clone(), &[])), guarded(b, || asca::run(&groups, &[wt.clone()], &[], &[])), guarded(b, || asca::run(&without, &[wt.clone()], &[], &[]))) else { continue };
            let blamed = tr.iter().any(|c| groups.get(c.rule_index).map(|g| g.name == "noop").unwrap_or(true)) || ts.iter().any(|l| l.contains("\"noop\""));
            if blamed || r_with != r_without {
                tot.viols.push(Viol { key: format!("noop-group|{:?}|{}|{}|{}", np, r1, r2, groups.len()), desc: format!("groups {:?} on `{}`: a group without any rule is reported as changing the word (trace {:?}) or changes the result ({:?} vs {:?} without it)", groups.iter().map(|g| (g.name.clone(), g.rule.clone())).collect::<Vec<_>>(), wt, ts, r_with, r_without), case: json!({"rule": "", "word": cw_json(&words[0].1)}) });
            } else { tn_ok += 1; }
        }
    } } } }
    r.boxes.push(json!({"box": "rule groups without any rule (empty, blank, comment-only) among groups that change the word: never blamed by the tracer, no effect on the run", "cases": tn, "held": tn_ok}));
    r.guard(tn_ok > 1000, "no-op groups: more than 1000 cases held");
    tot.evals += tn;
    r.evaluations = tot.evals; r.transitions = tot.evals; r.validated = tot.ok_same; r.nontrivial = tot.ok_same;
    r.states_count_override = Some(words.len() as u64);
    r.outcome("ok_unchanged", tot.ok_same); r.outcome("runtime_error (not a violation of C06)", tot.errs); r.outcome("rules rejected by the parser", tot.rejected); r.outcome("crashed (C02's business)", tot.crashed);
    r.boxes.push(json!({"box": format!("rulegen({}) planted x words", n), "skeletons": bases.len(), "words": words.len(), "applications": tot.evals, "ok_unchanged_by_rule_kind": tot.kinds}));
    r.guard(tot.ok_same > 100_000, "more than 100k applications returned Ok");
    r.guard(tot.kinds.len() == 4, "substitution, deletion, insertion and metathesis rules all returned Ok somewhere");
    r.guard(tot.crashed * 20 < tot.evals.max(1), "fewer than 5% of the applications crashed (crashes are C02 findings, mostly planted insertion contexts that loop)");
    r.sample(json!({"rule": plant(&rulegen::rules_of_size(3)[40000], 0).map(|p| p.text()), "word": words[4].0}));
    r.sample(json!({"rule": plant(&rulegen::rules_of_size(3)[60000], 1).map(|p| p.text()), "word": words[10].0}));
    for v in tot.viols { r.viol(v); }
    r.finish()
}

pub fn replay(case: &Value) -> Result<String, String> {
    let text = case["rule"].as_str().ok_or("no rule")?;
    let w = cw_from_json(&case["word"]).ok_or("no word")?;
    let mut a = acc();
    eval_text(text, &[(show_cw(&w), w)], &mut a);
    if let Some(v) = a.viols.first() { Err(v.desc.clone()) } else { Ok(format!("`{}` leaves the word unchanged (ok={}, err={}, rejected={})", text, a.ok_same, a.errs, a.rejected)) }
}
