//! C01 — same input, same output: environment exploration of the only nondeterminism in
//! the crate (HashMap iteration order behind the IPA table) + in-process history checks.
use crate::model::{self, FEATS};
use crate::util::*;
use asca::verif as av;
use serde_json::{json, Value};
use std::collections::{BTreeMap, BTreeSet};
use std::io::Write;

fn universe(k: usize) -> Vec<SegBits> {
    // parsed base + <= k diacritics, plus single feature / node changes of the bases
    let bases: Vec<(String, SegBits)> = av::cardinals().into_iter().map(|(g, s)| (g, bits(&s))).collect();
    let dias = av::diacritics();
    let mut set: BTreeSet<SegBits> = bases.iter().map(|x| x.1).collect();
    let mut strings = vec![];
    if k >= 1 { for b in &bases { for d in &dias { strings.push(format!("{}{}", b.0, d)); } } }
    if k >= 2 { for b in &bases { for d in &dias { for e in &dias { strings.push(format!("{}{}{}", b.0, d, e)); } } } }
    for s in &strings {
        if let Out::Ok(Ok(w)) = guarded(200_000, || av::parse_word(s, None)) {
            if w.syllables.len() == 1 && w.syllables[0].segments.len() == 1 { set.insert(bits(&w.syllables[0].segments[0])); }
        }
    }
    let base_bits: Vec<SegBits> = bases.iter().map(|x| x.1).collect();
    for b in &base_bits {
        for f in 0..FEATS.len() { for v in [true, false] { set.insert(model::set_feat(*b, f, v)); } }
        for n in 0..4 { set.insert(model::add_node(*b, n)); set.insert(model::del_node(*b, n)); }
    }
    set.into_iter().collect()
}

fn corpus() -> Vec<(Vec<&'static str>, Vec<&'static str>, Vec<&'static str>, Vec<&'static str>)> {
    vec![
        (vec!["a > e / _#"], vec!["qǀa", "ɢǀa", "ᵐp̪a", "ᵐb̪a", "qǃa", "ɢ‼a", "pa.ta"], vec![], vec![]),
        (vec!["[+cons] > [+voice] / V_V", "V > [+round]"], vec!["ˈpa.taˌki", "qǁa.ta", "sa.pa51"], vec![], vec![]),
        (vec!["C > [-place] / _#", "V > [+nasal] / _[+nasal]"], vec!["pat", "tan", "qǂaq"], vec![], vec!["[] => +x"]),
        (vec!["[+son] > [-voice]", "t > [+lab]"], vec!["man.ta", "ra.li"], vec![], vec!["V:[+nasal] => +q"]),
        (vec!["k > [+round, -back] / _i", "a > [+rtr]"], vec!["ka.ki", "ŋǃa.ki"], vec!["kh > x"], vec!["$ > *"]),
        (vec!["p > [αPLACE] / _[+cons, αPLACE]"], vec!["ap.ta", "ap.ka", "ap.qa"], vec![], vec![]),
        // words that are different strings but the same (or nearly the same) structure: Americanist vs IPA spelling,
        // ASCII shorthands vs IPA marks, phrases vs single words, literal repeats — a result reused under a lossy
        // notion of "same word" shows up as an order- or neighbour-dependent answer
        (vec!["a > e / _#"], vec!["¢a", "t͡sa", "ƛa", "t͡ɬa"], vec![], vec![]),
        (vec!["a > e / _#"], vec!["ła.ña", "ɬa.ɲa", "¢a t͡sa", "t͡sa ¢a"], vec![], vec![]),
        (vec!["V > [+nasal] / _#"], vec!["'ka:", "ˈkaː", "ka:", "ka;"], vec![], vec![]),
        (vec!["t > d"], vec!["ta", "ta", "ta51", "ˈta"], vec![], vec![]),
        // rules whose matching binds state (alphas, variables) in a non-final input element, and words that END in the middle of such a
        // match: a binding that survives into the next word makes the answer depend on the neighbours and on their order
        (vec!["[-son, αvoice] [-son, -αvoice] > &"], vec!["at", "dka", "ad", "tga"], vec![], vec![]),
        (vec!["C=1 V 1 > [+long]", "[+cons, αvoice] [+cons, αvoice] > &"], vec!["sab", "tga", "pad", "dka"], vec![], vec![]),
        (vec!["V=1 C 1 > * / _#"], vec!["tat", "ata", "ita", "tata"], vec![], vec![]),
        // calls that fail: the error value and the message shown for it (with its "did you mean" hint and caret line) are results too
        (vec!["[+voic] > [-voice]"], vec!["pa"], vec![], vec![]),
        (vec!["a > e", "[+labiodentall] > [+voice] / _#"], vec!["pa"], vec![], vec![]),
        (vec!["a > [+nasl]"], vec!["pa"], vec![], vec![]),
        (vec!["a > e"], vec!["pa"], vec![], vec!["[+constrictedglotis] > q"]),
        (vec!["a > e"], vec!["pa"], vec!["q > a:[+nasl]"], vec!["[+rnd] > o"]),
        (vec!["a > e"], vec!["pa", "p#a"], vec![], vec![]),
        (vec!["{p,t} > {b}", "% > a"], vec!["pa.ta"], vec![], vec![]),
    ]
}

/// everything one process observes, as lines `key\tvalue`
/// `reverse`: the same observations made in the opposite order (universe backwards, the `+` rendering of a
/// bundle before its normal rendering, corpus calls last to first); lines are keyed, so the two processes
/// must still agree line by line — any state carried from one rendering or call to the next shows up here
fn observe(k: usize, reverse: bool) -> Vec<String> {
    let mut out = vec![];
    out.push(format!("witness\t{:x}", av::order_witness()));
    let plus = av::compile_aliases(&[], &["[] => +ˣ".to_string()]).expect("plus alias compiles");
    let mut uni = universe(k);
    if reverse { uni.reverse(); }
    let mut corpus_lines = vec![];
    let cs = corpus();
    let order: Vec<usize> = if reverse { (0..cs.len()).rev().collect() } else { (0..cs.len()).collect() };
    if reverse {
        for ci in &order { corpus_lines.push(corpus_line(*ci, &cs[*ci])); }
    }
    for b in uni {
        let w = word_of(&vec![CSyl { segs: vec![b], stress: 0, tone: 0 }]);
        let (a, n) = if reverse { let n = guarded(500_000, || av::render_word(&w, Some(&plus))); let a = guarded(500_000, || av::render_word(&w, None)); (a, n) }
                     else { let a = guarded(500_000, || av::render_word(&w, None)); let n = guarded(500_000, || av::render_word(&w, Some(&plus))); (a, n) };
        out.push(format!("seg|{},{},{},{}\t{}\t{}", b.0, b.1, b.2, b.3.map(|x| x.to_string()).unwrap_or("-".into()), match a { Out::Ok(s) => s, o => o.crash_sig().unwrap() }, match n { Out::Ok(s) => s, o => o.crash_sig().unwrap() }));
    }
    if !reverse { for ci in &order { corpus_lines.push(corpus_line(*ci, &cs[*ci])); } }
    out.extend(corpus_lines);
    out
}

/// a result as text: Ok list, or the error's Debug form plus the message a user is shown for it
fn show_result(x: &Result<Vec<String>, asca::Error>, g: &[asca::RuleGroup], ws: &[String], into: &[String], from: &[String]) -> String {
    use asca::ASCAError;
    match x {
        Ok(v) => format!("Ok({:?})", v),
        Err(e) => {
            let shown = match e {
                asca::Error::RuleSyn(_) | asca::Error::RuleRun(_) => guarded(1_000_000, || e.format_rule_error(g)),
                asca::Error::AliasSyn(_) | asca::Error::AliasRun(_) => guarded(1_000_000, || e.format_alias_error(into, from)),
                _ => guarded(1_000_000, || e.format_word_error(ws)),
            };
            format!("Err({:?}) message=[{}] shown=[{}]", e, e.get_error_message().replace('\n', " | "), match shown { Out::Ok(t) => t.replace('\n', " | "), o => o.crash_sig().unwrap() })
        }
    }
}

fn corpus_line(ci: usize, c: &(Vec<&'static str>, Vec<&'static str>, Vec<&'static str>, Vec<&'static str>)) -> String {
    let (rules, words, into, from) = c;
    let g: Vec<asca::RuleGroup> = rules.iter().map(|r| group(&[r])).collect();
    let ws: Vec<String> = words.iter().map(|s| s.to_string()).collect();
    let i: Vec<String> = into.iter().map(|s| s.to_string()).collect(); let f: Vec<String> = from.iter().map(|s| s.to_string()).collect();
    let r = guarded(5_000_000, || asca::run(&g, &ws, &i, &f));
    format!("corpus|{}\t{}", ci, match r { Out::Ok(x) => show_result(&x, &g, &ws, &i, &f), o => o.crash_sig().unwrap() })
}

pub fn worker(args: &[String]) -> i32 {
    let k: usize = args.first().and_then(|s| s.parse().ok()).unwrap_or(1);
    let path = args.get(1).cloned().unwrap_or_default();
    // force the lazy table first, on this thread, so that the witness is recorded here
    let _ = av::cardinals_vec();
    let reverse = args.get(2).map(|s| s == "rev").unwrap_or(false);
    let lines = observe(k, reverse);
    let mut f = std::fs::File::create(&path).expect("worker output file");
    for l in &lines { writeln!(f, "{}", l).unwrap(); }
    0
}

fn in_process(r: &mut Report) {
    // the same call twice; permutations of word lists; interleavings of two different calls
    let mut evals = 0u64;
    let cs = corpus();
    let call = |ci: usize, words: &[String]| -> String {
        let (rules, _, into, from) = &cs[ci];
        let g: Vec<asca::RuleGroup> = rules.iter().map(|r| group(&[r])).collect();
        let i: Vec<String> = into.iter().map(|s| s.to_string()).collect(); let f: Vec<String> = from.iter().map(|s| s.to_string()).collect();
        match guarded(5_000_000, || asca::run(&g, words, &i, &f)) { Out::Ok(x) => show_result(&x, &g, words, &i, &f), o => o.crash_sig().unwrap() }
    };
    for ci in 0..cs.len() {
        let ws: Vec<String> = cs[ci].1.iter().map(|s| s.to_string()).collect();
        // the reference answer comes from a thread that has never rendered anything (thread-local state is fresh there)
        let first = std::thread::scope(|sc| sc.spawn(|| call(ci, &ws)).join().unwrap());
        evals += 1;
        let here = call(ci, &ws);
        if here != first { r.viol(Viol { key: format!("history|fresh-thread-vs-used-thread|call{}", ci), desc: format!("call {} in a fresh thread gave {}, in a thread with a history {}", ci, first, here), case: json!({"kind": "history"}) }); }
        // histories: A A, A B A, B A A, A B B A for every other call B
        for cj in 0..cs.len() {
            let wj: Vec<String> = cs[cj].1.iter().map(|s| s.to_string()).collect();
            let bj = call(cj, &wj);
            for hist in [vec![ci, ci], vec![ci, cj, ci], vec![cj, ci, ci], vec![ci, cj, cj, ci]] {
                for h in hist { evals += 1; let got = if h == ci { (call(ci, &ws), &first) } else { (call(cj, &wj), &bj) }; if got.0 != *got.1 { r.viol(Viol { key: format!("history|call{}", h), desc: format!("call {} gave {} and later {}", h, got.1, got.0), case: json!({"kind": "history"}) }); } }
            }
        }
        // every permutation of up to 4 of its words: per-word results are invariant
        let ws4: Vec<String> = ws.iter().take(4).cloned().collect();
        let single: BTreeMap<String, String> = ws4.iter().map(|w| (w.clone(), call(ci, &[w.clone()]))).collect();
        let n = ws4.len();
        let mut perm: Vec<usize> = (0..n).collect();
        loop {
            evals += 1;
            let list: Vec<String> = perm.iter().map(|i| ws4[*i].clone()).collect();
            let got = call(ci, &list);
            let want = format!("Ok([{}])", list.iter().map(|w| single[w].trim_start_matches("Ok([").trim_end_matches("])").to_string()).collect::<Vec<_>>().join(", "));
            if got != want && !got.starts_with("Err") { r.viol(Viol { key: format!("permutation|corpus{}", ci), desc: format!("word order {:?}: got {}, per-word results {}", list, got, want), case: json!({"kind": "history"}) }); }
            // next permutation
            let mut i = n.wrapping_sub(1);
            while i > 0 && perm[i - 1] >= perm[i] { i -= 1; }
            if i == 0 || n == 0 { break; }
            let mut j = n - 1; while perm[j] <= perm[i - 1] { j -= 1; }
            perm.swap(i - 1, j); perm[i..].reverse();
        }
    }
    r.boxes.push(json!({"box": "in-process histories (repeat, interleave, permute)", "calls": evals}));
    r.evaluations += evals;
    shared_component_histories(r);
}

/// Calls that agree in some of their four inputs and differ in the others: the product of word lists x deromanisers x
/// romanisers x rule lists. Every ordered pair (X, then Y) is run on one thread and Y is compared with what a thread
/// without a history returns for it — a result remembered under a key that leaves one of the inputs out (word text
/// without the aliases it was read with, rules without the words, ...) makes some Y depend on its predecessor.
fn shared_component_histories(r: &mut Report) {
    let word_lists: Vec<Vec<&str>> = vec![vec!["sha.ta", "ta.ša", "ka"], vec!["ˈpã", "pã", "sha ˈsha"], vec!["qa", "xa.sha", "ˈpã"]];
    let intos: Vec<Vec<&str>> = vec![vec![], vec!["sh > ʃ"], vec!["sh > s", "š > ʃ"], vec!["q > k"]];
    let froms: Vec<Vec<&str>> = vec![vec![], vec!["ʃ > sh"], vec!["V:[+str] => +@{acute}"], vec!["a > A", "$ > *"]];
    // the last four hold the same failing line at different places of the list (an apply-time error and a syntax error): the error names its own place
    let rule_lists: Vec<Vec<&str>> = vec![vec!["a > e"], vec!["ʃ > s", "a > o / _#"], vec!["a > [αvoice]"], vec!["ʃ > s", "a > [αvoice]"], vec!["a = b", "ʃ > s"], vec!["ʃ > s", "a > e", "a = b"]];
    let mut calls: Vec<(usize, usize, usize, usize)> = vec![];
    for w in 0..word_lists.len() { for i in 0..intos.len() { for f in 0..froms.len() { for g in 0..rule_lists.len() { calls.push((w, i, f, g)); } } } }
    let sv = |v: &Vec<&str>| -> Vec<String> { v.iter().map(|s| s.to_string()).collect() };
    let call = |c: &(usize, usize, usize, usize)| -> String {
        let g: Vec<asca::RuleGroup> = rule_lists[c.3].iter().map(|x| group(&[x])).collect();
        let (ws, i, f) = (sv(&word_lists[c.0]), sv(&intos[c.1]), sv(&froms[c.2]));
        match guarded(5_000_000, || asca::run(&g, &ws, &i, &f)) { Out::Ok(x) => show_result(&x, &g, &ws, &i, &f), o => o.crash_sig().unwrap() }
    };
    let fresh: Vec<String> = calls.iter().map(|c| std::thread::scope(|sc| sc.spawn(|| call(c)).join().unwrap())).collect();
    let distinct: BTreeSet<&String> = fresh.iter().collect();
    let (mut evals, mut bad) = (0u64, 0u64);
    for x in 0..calls.len() {
        for y in 0..calls.len() {
            let _ = call(&calls[x]);
            let got = call(&calls[y]);
            evals += 2;
            if got != fresh[y] {
                bad += 1;
                let differ: Vec<&str> = [("words", calls[x].0 != calls[y].0), ("deromanisers", calls[x].1 != calls[y].1), ("romanisers", calls[x].2 != calls[y].2), ("rules", calls[x].3 != calls[y].3)].iter().filter(|d| d.1).map(|d| d.0).collect();
                r.viol(Viol { key: format!("history|shared-components|differs-in:{}", differ.join("+")), desc: format!("run(rules {:?}, words {:?}, into {:?}, from {:?}) gives {} on a fresh thread but {} right after run(rules {:?}, words {:?}, into {:?}, from {:?})",
                    rule_lists[calls[y].3], word_lists[calls[y].0], intos[calls[y].1], froms[calls[y].2], fresh[y], got, rule_lists[calls[x].3], word_lists[calls[x].0], intos[calls[x].1], froms[calls[x].2]), case: json!({"kind": "history"}) });
            }
        }
    }
    r.boxes.push(json!({"box": "in-process histories over calls sharing some inputs (word lists x deromanisers x romanisers x rule lists, every ordered pair)", "calls": calls.len(), "ordered_pairs": calls.len() * calls.len(), "distinct_results": distinct.len(), "failures": bad}));
    r.guard(distinct.len() > 30, "shared-component calls have more than 30 distinct results");
    r.evaluations += evals;
}

/// Binding tables (alphas, variables) are per-application hash maps with their own random state: a rule whose outcome depends on the order in
/// which such a table is walked answers differently from call to call in ONE process. Every rule of a small grammar that binds something before
/// an environment construct that retries (a set, an optional, an environment set) and uses it afterwards is run 12 times on every word; all 12
/// outcomes (and the trace's) must be the same. The harness cannot choose these seeds (they are drawn inside std), so this box is a replay check.
fn repeated_calls(r: &mut Report) {
    let pres = ["[αnasal]", "[αvoice]", "C=1", "[αnasal, γvoice]", "[γvoice] [αnasal]"];
    let mids = ["{[βcont, +voice], C}", "{[βvoice, +cont], [βnasal]}", "{C=2 [+voice], C}", "([βcont, +voice]) C", "{[βcont, δvoice], C}", "{[βcont, γvoice, +nasal], C} [γvoice]"];
    let outs = ["[αnasal]", "[αvoice]", "[+nasal]", "1", "[αnasal, γvoice]"];
    let words = ["mas", "maz", "pat", "mazd", "a.mas.ta"];
    let mut rules: Vec<String> = vec![];
    for p in pres { for m in mids { for o in outs {
        rules.push(format!("V > {} / {} _ {}", o, p, m));
        rules.push(format!("V > {} / :{{ {} _ {}, {} _ # }}:", o, p, m, p));
        rules.push(format!("* > ə / {} _ {}", p, m));
    } } }
    let (mut evals, mut distinct_all) = (0u64, BTreeSet::new());
    for rule in &rules { for w in words {
        let g = vec![group(&[rule.as_str()])]; let ws = vec![w.to_string()];
        let one = || -> String { match guarded(budget_for(12, 90) * 2, || asca::run(&g, &ws, &[], &[])) { Out::Ok(x) => show_result(&x, &g, &ws, &[], &[]), o => o.crash_sig().unwrap() } };
        let tr = || -> String { match guarded(budget_for(12, 90) * 2, || asca::get_trace_string(&g, ws[0].clone(), &[])) { Out::Ok(x) => format!("{:?}", x.map_err(|e| format!("{:?}", std::mem::discriminant(&e)))), o => o.crash_sig().unwrap() } };
        let (first, first_tr) = (one(), tr());
        distinct_all.insert(first.clone());
        for k in 1..12 {
            evals += 2;
            let (again, again_tr) = (one(), tr());
            if again != first || again_tr != first_tr {
                r.viol(Viol { key: format!("repeat|{}|{}", rule, w), desc: format!("call {} of run / get_trace_string with rule `{}` on `{}` gives {} / {}, the first call gave {} / {}", k + 1, rule, w, again, again_tr, first, first_tr), case: json!({"kind": "history"}) });
                break;
            }
        }
    } }
    r.boxes.push(json!({"box": "the same call 12 times in one process: rules that bind alphas / variables before a set, optional or environment set and use them afterwards", "rules": rules.len(), "words": words.len(), "repeated_calls": evals, "distinct_results": distinct_all.len()}));
    r.guard(distinct_all.len() > 20, "repeated calls: more than 20 distinct results");
    r.evaluations += evals;
}

/// The command line answers the same in every process: a project whose tags use multi-name `~` / `!` filters (the order of the names is part of
/// the meaning of `~`), aliases and pipelines is run 12 times, each in a fresh directory and process; stdout and every written file must agree.
/// A replay check like the 16 unseeded table orders: it owns no choice, it shows that there is none left (per-process hash seeds included).
fn cli_processes(r: &mut Report) {
    use crate::cli::{cli_available, run_cli, Sandbox};
    if !cli_available() { r.machinery_errors.push("asca binary not built".into()); return; }
    let rules = "@ first\n    a > e\n@ second\n    e > i\n@ third\n    i > o\n@ fourth\n    o > u / _#\n";
    let config = "@one [\"w\"]:\n    \"rules\" ~ {\"third\", \"first\", \"second\"}\n@two [\"w\"]:\n    \"rules\" ~ {\"second\", \"fourth\", \"first\", \"third\"}\n@three %one $al:\n    \"rules\" ! {\"fourth\", \"first\"}\n@four %two [\"w\"]:\n    \"rules\" ~ {\"first\", \"third\"},\n    \"rules\" ~ {\"fourth\", \"second\", \"first\"}\n";
    let n = 12;
    let mut seen: Vec<String> = vec![];
    for k in 0..n {
        let sb = Sandbox::new("c01c", k);
        sb.write("rules.rsca", rules); sb.write("w.wsca", "pa.ta\nqǀa.ɢǀa\nᵐp̪a\nta.pa"); sb.write("al.alias", "@into\n    q > k\n@from\n    [+nasal] > +N\n"); sb.write("config.asca", config);
        let o = run_cli(&sb.dir, &["seq", ".", "-o", "-y", "-a"]);
        let mut obs = format!("exit {:?}\nstdout:\n{}\n", o.code, o.stdout);
        for tag in sb.list("out") { for f in sb.list(&format!("out/{}", tag)) { obs += &format!("out/{}/{}:\n{}\n", tag, f, sb.read(&format!("out/{}/{}", tag, f)).unwrap_or_default()); } }
        let o2 = run_cli(&sb.dir, &["conv", "tag", "four", "-p", ".", "-r", "-o", "four.json"]);
        obs += &format!("conv exit {:?}\n{}\n", o2.code, sb.read("four.json").unwrap_or_default());
        let o3 = run_cli(&sb.dir, &["run", "-r", "rules.rsca", "-w", "w.wsca"]);
        obs += &format!("run exit {:?}\n{}\n", o3.code, o3.stdout);
        seen.push(obs);
    }
    crate::cli::cleanup("c01c");
    let distinct: BTreeSet<&String> = seen.iter().collect();
    r.evaluations += n as u64 * 3;
    r.boxes.push(json!({"box": "command line in 12 fresh processes (seq with multi-name filters, aliases, pipelines; conv tag -r; run)", "processes": n * 3, "distinct_observations": distinct.len(), "observation_bytes": seen[0].len()}));
    r.guard(seen[0].contains("out/four/") && seen[0].len() > 400, "the command-line project produced output files");
    if distinct.len() != 1 {
        let other = seen.iter().find(|x| **x != seen[0]).unwrap();
        let (la, lb): (Vec<&str>, Vec<&str>) = (seen[0].lines().collect(), other.lines().collect());
        let at = la.iter().zip(lb.iter()).position(|(x, y)| x != y).unwrap_or(0);
        r.viol(Viol { key: "cli|process-dependent-output".into(), desc: format!("the same project gives {} different results in {} processes; first difference at line {}: `{}` vs `{}`", distinct.len(), n, at + 1, la.get(at).unwrap_or(&""), lb.get(at).unwrap_or(&"")), case: json!({"kind": "history"}) });
    }
}

pub fn run() -> i32 {
    let mut r = Report::new("C01");
    let thorough = r.thorough();
    let k = if thorough { 2 } else { 1 };
    r.rule = "environment: the order in which the IPA table's HashMap is walked when the grapheme list is built, chosen by the harness through the verif seam: sorted, reversed, and every one of the 365 graphemes moved to the front (367 orders; by the reduction argument of DESIGN §5 C01 these produce every outcome any of the 365! orders can produce), one fresh process per order, plus 16 processes with the order left to the real per-process hash seed (replay check for nondeterminism the seam does not own). Data: every bundle of base + <= k diacritics and every single feature/node change of a base, rendered normally and through the `+` romaniser path, plus a corpus of run() calls with aliases. Histories inside one process: same call twice, interleaved with other calls, every permutation of word lists. Oracle: all observations identical. Non-trivial = bundles whose rendering is not �.".into();
    let exe = std::env::current_exe().expect("own path");
    let dir = format!("{}/work/c01_{}", crate::util::root(), std::process::id());
    let _ = std::fs::create_dir_all(&dir);
    let mut orders: Vec<(String, Option<String>)> = vec![("sorted".into(), Some("sorted".into())), ("rev".into(), Some("rev".into()))];
    for (g, _) in av::cardinals() { orders.push((format!("front:{}", g), Some(format!("front:{}", g)))); }
    for i in 0..16 { orders.push((format!("unset#{}", i), None)); }
    // two processes that make the same observations in the opposite order (history independence across a whole process)
    orders.push(("sorted/observations-reversed".into(), Some("sorted".into())));
    orders.push(("rev/observations-reversed".into(), Some("rev".into())));
    // run workers, n_threads at a time
    let results: std::sync::Mutex<Vec<(usize, bool)>> = std::sync::Mutex::new(vec![]);
    par_fold(orders.len(), 1, || (), |i, _| {
        let out = format!("{}/{}.txt", dir, i);
        let mut cmd = std::process::Command::new(&exe);
        cmd.arg("c01-worker").arg(k.to_string()).arg(&out).arg(if orders[i].0.ends_with("observations-reversed") { "rev" } else { "fwd" }).env_remove("ASCA_VERIF_ORDER");
        if let Some(o) = &orders[i].1 { cmd.env("ASCA_VERIF_ORDER", o); }
        let ok = cmd.status().map(|s| s.success()).unwrap_or(false);
        results.lock().unwrap().push((i, ok));
    }, |_| {});
    let results = results.into_inner().unwrap();
    let failed: Vec<&(usize, bool)> = results.iter().filter(|x| !x.1).collect();
    if !failed.is_empty() { r.machinery_errors.push(format!("{} worker processes failed, e.g. order {}", failed.len(), orders[failed[0].0].0)); }
    // compare all outputs with order 0
    let read = |i: usize| -> Vec<String> { std::fs::read_to_string(format!("{}/{}.txt", dir, i)).unwrap_or_default().lines().map(|s| s.to_string()).collect() };
    let base = read(0);
    let mut witnesses: BTreeSet<String> = BTreeSet::new();
    let mut renderable = 0u64;
    for l in &base { if l.starts_with("seg|") && !l.contains('\u{FFFD}') { renderable += 1; } }
    let mut compared = 0u64;
    for i in 0..orders.len() {
        let cur = if i == 0 { base.clone() } else { read(i) };
        if cur.len() != base.len() { r.machinery_errors.push(format!("order {} produced {} lines, expected {}", orders[i].0, cur.len(), base.len())); continue; }
        let mut cur = cur; if let Some(w) = cur.iter().find(|l| l.starts_with("witness")) { witnesses.insert(w.clone()); }
        cur.sort(); let mut bs = base.clone(); bs.sort();
        for (a, b) in bs.iter().zip(cur.iter()) {
            if a.starts_with("witness") { continue; }
            compared += 1;
            if a != b {
                let key = a.split('\t').next().unwrap_or("").to_string();
                r.viol(Viol { key: format!("order-dependent|{}", key), desc: format!("under table order `sorted`: {} ; under `{}`: {}", a.replace('\t', " -> "), orders[i].0, b.replace('\t', " -> ")), case: json!({"kind": "order", "order": orders[i].0, "k": k, "line": key}) });
            }
        }
    }
    let _ = std::fs::remove_dir_all(&dir);
    r.boxes.push(json!({"box": "table-order exploration", "orders": orders.len(), "observations_per_process": base.len(), "observations_compared": compared, "distinct_key_orders_seen_by_the_initialiser": witnesses.len(), "renderable_bundles": renderable}));
    r.guard(witnesses.len() >= 300, "the order seam handed >= 300 distinct key orders to the CARDINALS_VEC initialiser");
    r.guard(base.len() > 5000, "more than 5000 observations per process");
    r.evaluations = compared; r.transitions = orders.len() as u64; r.validated = compared; r.nontrivial = renderable; r.states_count_override = Some(base.len() as u64);
    in_process(&mut r);
    repeated_calls(&mut r);
    cli_processes(&mut r);
    r.sample(json!({"order": "front:ɢǀ", "observation": base.iter().find(|l| l.contains("qǀ") || l.contains("ɢǀ")).cloned()}));
    r.sample(json!({"observation": base.get(base.len() / 2).cloned()}));
    r.assumptions.push("the 16 unset-order processes are a replay check (the OS seeds their RandomState), not an exhaustive part".into());
    r.finish()
}

pub fn replay(case: &Value) -> Result<String, String> {
    match case["kind"].as_str() {
        Some("order") => {
            let exe = std::env::current_exe().map_err(|e| e.to_string())?;
            let k = case["k"].as_u64().unwrap_or(1);
            let line = case["line"].as_str().unwrap_or("");
            let mut seen = vec![];
            for o in ["sorted", case["order"].as_str().unwrap_or("rev")] {
                let out = format!("{}/work/c01_replay_{}.txt", crate::util::root(), std::process::id());
                let _ = std::fs::create_dir_all(format!("{}/work", crate::util::root()));
                let mut cmd = std::process::Command::new(&exe);
                cmd.arg("c01-worker").arg(k.to_string()).arg(&out);
                if o.starts_with("unset") { cmd.env_remove("ASCA_VERIF_ORDER"); } else { cmd.env("ASCA_VERIF_ORDER", o); }
                cmd.status().map_err(|e| e.to_string())?;
                let txt = std::fs::read_to_string(&out).unwrap_or_default();
                let _ = std::fs::remove_file(&out);
                seen.push(txt.lines().find(|l| l.starts_with(line)).unwrap_or("").to_string());
            }
            if seen[0] == seen[1] { Ok(format!("same under both orders: {}", seen[0])) } else { Err(format!("`{}` vs `{}`", seen[0], seen[1])) }
        }
        _ => Err("in-process history case: re-run ./check C01".into()),
    }
}
