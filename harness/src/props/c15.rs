//! C15 — aliases change notation, never the sound changes.
use crate::model;
use crate::util::*;
use asca::verif as av;
use serde_json::{json, Value};

#[derive(Clone, Debug)]
enum RIn { Ipa(SegBits), IpaLong(SegBits), IpaStress(SegBits), V, VStress, Nasal, Seq(SegBits, SegBits), Bound, IpaSec(SegBits), VNoSec, IpaPrimOnly(SegBits) }
#[derive(Clone, Debug)]
enum ROut { Str(&'static str, &'static str), Plus(&'static str, &'static str), Drop }

fn is_v(b: SegBits) -> bool { model::feat(b, 0) == Some(false) && model::feat(b, 1) == Some(true) && model::feat(b, 2) == Some(true) }

fn rin_text(i: &RIn) -> &'static str { match i { RIn::Ipa(_) => "a", RIn::IpaLong(_) => "a:[+long]", RIn::IpaStress(_) => "a:[+stress]", RIn::V => "V", RIn::VStress => "V:[+stress]", RIn::Nasal => "[+nasal]", RIn::Seq(..) => "ta", RIn::Bound => "$", RIn::IpaSec(_) => "a:[+secstress]", RIn::VNoSec => "V:[-sec.stress]", RIn::IpaPrimOnly(_) => "a:[+stress, -secstress]" } }
fn rout_text(o: &ROut) -> String { match o { ROut::Str(t, _) => t.to_string(), ROut::Plus(t, _) => format!("+{}", t), ROut::Drop => "*".into() } }

/// reference romaniser (doc.md §Romanisation, §Plus Operator): per syllable, at each logical
/// segment the first alias in file order whose segment sequence matches replaces its text.
fn romanise(w: &CW, aliases: &[(RIn, ROut)]) -> Option<String> {
    let graph = |b: SegBits| -> Option<String> { let s = seg_of(b).get_as_grapheme()?; Some(s) };
    let mut pieces: Vec<(u8, String)> = vec![]; // (0 text, 1 boundary / stress mark, 2 stress mark of the first syllable), text
    for (i, sy) in w.iter().enumerate() {
        let lead = if i == 0 { 2 } else { 1 };
        match sy.stress { 1 => pieces.push((lead, "ˈ".into())), 2 => pieces.push((lead, "ˌ".into())), _ => if i > 0 { pieces.push((1, ".".into())) } }
        let segs = &sy.segs;
        let mut j = 0;
        'outer: while j < segs.len() {
            if j > 0 && segs[j] == segs[j - 1] { pieces.push((0, "ː".into())); j += 1; continue; }
            let run = { let mut n = 1; while j + n < segs.len() && segs[j + n] == segs[j] { n += 1; } n };
            for (inp, out) in aliases {
                // (consumed raw slots, length was part of the match)
                let m: Option<(usize, bool)> = match inp {
                    RIn::Ipa(a) => if segs[j] == *a { Some((1, false)) } else { None },
                    RIn::IpaLong(a) => if segs[j] == *a && run >= 2 { Some((run, true)) } else { None },
                    RIn::IpaStress(a) => if segs[j] == *a && sy.stress != 0 { Some((1, false)) } else { None },
                    RIn::V => if is_v(segs[j]) { Some((1, false)) } else { None },
                    RIn::VStress => if is_v(segs[j]) && sy.stress != 0 { Some((1, false)) } else { None },
                    RIn::Nasal => if model::feat(segs[j], 6) == Some(true) { Some((1, false)) } else { None },
                    RIn::Seq(a, b) => if segs[j] == *a && j + 1 < segs.len() && segs[j + 1] == *b { Some((2, false)) } else { None },
                    RIn::Bound => None,
                    RIn::IpaSec(a) => if segs[j] == *a && sy.stress == 2 { Some((1, false)) } else { None },
                    RIn::VNoSec => if is_v(segs[j]) && sy.stress != 2 { Some((1, false)) } else { None },
                    RIn::IpaPrimOnly(a) => if segs[j] == *a && sy.stress == 1 { Some((1, false)) } else { None },
                };
                if let Some((k, with_len)) = m {
                    match out {
                        ROut::Str(_, s) => pieces.push((0, s.to_string())),
                        ROut::Drop => {}
                        ROut::Plus(_, s) => {
                            let mut t = String::new();
                            if with_len { t += &graph(segs[j + k - 1])?; } else { for x in j..j + k { t += &graph(segs[x])?; } }
                            t += s; pieces.push((0, t));
                        }
                    }
                    j += k; continue 'outer;
                }
            }
            pieces.push((0, graph(segs[j])?)); j += 1;
        }
        if sy.tone != 0 { pieces.push((0, sy.tone.to_string())); }
    }
    let bound = aliases.iter().rev().find_map(|(i, o)| if let RIn::Bound = i { Some(match o { ROut::Str(_, s) => s.to_string(), ROut::Drop => String::new(), ROut::Plus(_, s) => s.to_string() }) } else { None });
    let mut s = String::new();
    for (idx, (kind, t)) in pieces.iter().enumerate() {
        // a `$` alias replaces every boundary and stress mark; a stress mark that opens the printed word is dropped
        if *kind > 0 { match &bound { Some(r) => { if !(idx == 0 && t != ".") { s += r; } } None => s += t } } else { s += t; }
    }
    Some(s)
}

fn words(max_len: usize, decorate: bool) -> Vec<CW> {
    let inv: Vec<SegBits> = ["p", "t", "a", "i", "n"].iter().map(|t| seg(t)).collect();
    let mut out = vec![];
    for (k, w) in word_space(&inv, max_len).into_iter().enumerate() {
        out.push(w.clone());
        if decorate { let mut x = w.clone(); for (i, sy) in x.iter_mut().enumerate() { sy.stress = ((k + i) % 3) as u8; } if x != w { out.push(x); } }
    }
    out
}

#[derive(Default)]
struct Acc { evals: u64, rewritten: u64, same: u64, viols: Vec<Viol>, outs: std::collections::BTreeSet<u64>, skipped: u64 }
impl Acc { fn merge(&mut self, o: Acc) { self.evals += o.evals; self.rewritten += o.rewritten; self.same += o.same; self.skipped += o.skipped; self.viols.extend(o.viols); self.outs.extend(o.outs); } }

const RULES: [&[&str]; 5] = [&[], &["a > i / _#"], &["V > [+long] / _C", "t > n / V_V"], &["% > [+stress] / #_"], &["C V > & / _#"]];

fn romaniser_case(lines: &[String], model_aliases: &[(RIn, ROut)], ws: &[CW], a: &mut Acc) {
    let al = match guarded(500_000, || av::compile_aliases(&[], lines)) { Out::Ok(Ok(x)) => x, Out::Ok(Err(e)) => { a.viols.push(Viol { key: format!("romaniser-rejected|{}", lines.join(" ;; ")), desc: format!("romaniser {:?} rejected: {:?}", lines, e), case: json!({"kind": "rom", "lines": lines}) }); return; } _ => return };
    for rl in RULES {
        let comp = match guarded(500_000, || av::compile(&[group(rl)])) { Out::Ok(Ok(c)) => c, _ => continue };
        for w in ws {
            // the same rules fire with or without the romaniser: apply structurally once, print both ways
            let res = match guarded(budget_for(12, 40), || av::apply_group(&comp, 0, word_of(w)).map(|x| cw_of(&x))) { Out::Ok(Ok(x)) => x, _ => { a.skipped += 1; continue; } };
            let Some(want) = romanise(&res, model_aliases) else { a.skipped += 1; continue };
            a.evals += 1;
            let plain = av::render_word(&word_of(&res), None);
            // through the public API, so that "the same rules fire" is part of what is compared
            let text = av::render_word(&word_of(w), None);
            let got = guarded(budget_for(14, 60) * 2, || asca::run(&[group(rl)], &[text.clone()], &[], lines).map_err(|e| format!("{:?}", e)));
            let got2 = guarded(500_000, || av::render_word(&word_of(&res), Some(&al)));
            match (got, got2) {
                (Out::Ok(Ok(v)), Out::Ok(r2)) if v.len() == 1 && v[0] == want && r2 == want => { if want != plain { a.rewritten += 1; a.outs.insert(hash64(&want)); } else { a.same += 1; } }
                (g, g2) => a.viols.push(Viol { key: format!("romaniser|{}|{}|{}", lines.join(" ;; "), rl.join(" ;; "), text), desc: format!("romaniser {:?}, rules {:?}, word `{}`: default rendering `{}` rewritten by the alias table is `{}`; run printed {:?}, render printed {:?}", lines, rl, text, plain, want, g, g2), case: json!({"kind": "rom", "lines": lines, "rules": rl, "word": cw_json(w)}) }),
            }
        }
    }
}

fn rom_pool() -> Vec<(RIn, Vec<ROut>)> {
    let (a, t) = (seg("a"), seg("t"));
    let strs = vec![ROut::Str("Q", "Q"), ROut::Str("QQ", "QQ"), ROut::Drop, ROut::Str("\\u{00FE}", "þ"), ROut::Str("@{acute}", "\u{301}")];
    let mut with_plus = strs.clone(); with_plus.push(ROut::Plus("q", "q")); with_plus.push(ROut::Plus("@{macron}", "\u{304}"));
    vec![(RIn::Ipa(a), with_plus.clone()), (RIn::IpaLong(a), with_plus.clone()), (RIn::IpaStress(a), strs.clone()), (RIn::V, with_plus.clone()), (RIn::VStress, with_plus.clone()), (RIn::Nasal, with_plus.clone()), (RIn::Seq(t, a), strs.clone()), (RIn::Bound, vec![ROut::Drop, ROut::Str("Q", "Q"), ROut::Str("\\-", "-")]),
         (RIn::IpaSec(a), strs.clone()), (RIn::VNoSec, with_plus.clone()), (RIn::IpaPrimOnly(a), strs.clone())]
}

// ---- deromanisers: (alias line, encoder of the canonical text)
fn encode(kind: usize, w: &CW) -> Option<String> {
    let text = av::render_word(&word_of(w), None);
    match kind {
        0 => Some(text.replace('a', "Q")),                  // Q > a
        1 => if text.contains("aː") { Some(text.replace("aː", "QQ")) } else { None },          // QQ > a:[+long]
        2 => Some(text.replace("ta", "Z")),                 // Z > ta
        3 | 6 => {                                           // X > a:[+stress] (S > a:[+secstress]): first /a/ of every primary- (secondary-) stressed syllable typed as X (S), stress mark as plain boundary
            let mut out = String::new();
            for (i, sy) in w.iter().enumerate() {
                let a = seg("a");
                let has = sy.stress == (if kind == 3 { 1 } else { 2 }) && sy.segs.contains(&a);
                let mut one: CW = vec![sy.clone()];
                if has { one[0].stress = 0; }
                let mut t = av::render_word(&word_of(&one), None);
                if has { t = t.replacen('a', if kind == 3 { "X" } else { "S" }, 1); }
                if i > 0 && !t.starts_with(['ˈ', 'ˌ']) { out.push('.'); }
                out += &t;
            }
            Some(out)
        }
        // multi-segment outputs with a long segment in non-final position; a following length mark would lengthen the last segment, so those words are left out
        4 => if text.contains("taːn") && !text.contains("taːnː") && !text.contains("taːːn") { Some(text.replace("taːn", "Y")) } else { None },
        5 => if text.contains("aːt") && !text.contains("aːtː") && !text.contains("aːːt") { Some(text.replace("aːt", "W")) } else { None },
        _ => None,
    }
}
const DEROM: [&str; 7] = ["Q > a", "QQ > a:[+long]", "Z > ta", "X > a:[+stress]", "Y > ta:[+long]n", "W > a:[+long]t", "S > a:[+secstress]"];

fn deromaniser_case(kind: usize, ws: &[CW], a: &mut Acc) {
    let into = vec![DEROM[kind].to_string()];
    for rl in RULES {
        for w in ws {
            let Some(enc) = encode(kind, w) else { continue };
            let text = av::render_word(&word_of(w), None);
            if enc == text && kind != 3 && kind != 6 { continue; }
            a.evals += 1;
            let plain = guarded(budget_for(14, 60) * 2, || asca::run(&[group(rl)], &[text.clone()], &[], &[]).map_err(|e| format!("{:?}", e)));
            let aliased = guarded(budget_for(14, 60) * 2, || asca::run(&[group(rl)], &[enc.clone()], &into, &[]).map_err(|e| format!("{:?}", e)));
            match (&plain, &aliased) {
                (Out::Ok(x), Out::Ok(y)) if x == y => { if x.is_ok() { a.rewritten += 1; } else { a.same += 1; } }
                (Out::Ok(_), Out::Ok(_)) => a.viols.push(Viol { key: format!("deromaniser|{}|{}|{}", DEROM[kind], rl.join(" ;; "), text), desc: format!("deromaniser `{}`: typing `{}` must behave as `{}`; rules {:?}: {:?} vs {:?}", DEROM[kind], enc, text, rl, aliased, plain), case: json!({"kind": "derom", "d": kind, "rules": rl, "word": cw_json(w)}) }),
                _ => a.skipped += 1,
            }
        }
    }
}

// ---- `+` deromanisers with a bare matrix: "payload added to the previously calculated segment" (doc.md §Plus Operator)
/// (matrix text, feature changes (index into FEATS, value), length op, stress, tone)
/// length op: 0 none, 1 `+long` (at least long), 2 `-long`, 3 `+overlong`, 4 `-overlong` (at most long), 5 `+long, -overlong`, 6 `-long, -overlong`, 7 `+long, +overlong`
const PLUS_MATRICES: [(&str, &[(usize, bool)], u8, Option<u8>, Option<u16>); 17] = [
    ("[+nasal]", &[(6, true)], 0, None, None), ("[+voice]", &[(11, true)], 0, None, None), ("[-voice]", &[(11, false)], 0, None, None), ("[+nasal, -voice]", &[(6, true), (11, false)], 0, None, None),
    ("[+long]", &[], 1, None, None), ("[-long]", &[], 2, None, None), ("[+overlong]", &[], 3, None, None), ("[-overlong]", &[], 4, None, None), ("[+long, -overlong]", &[], 5, None, None), ("[-long, -overlong]", &[], 6, None, None), ("[+long, +overlong]", &[], 7, None, None),
    ("[+stress]", &[], 0, Some(1), None), ("[-stress]", &[], 0, Some(0), None), ("[tone: 5]", &[], 0, None, Some(5)),
    ("[+nasal, +long]", &[(6, true)], 1, None, None), ("[+stress, -long]", &[], 2, Some(1), None), ("[+voice, -overlong, tone: 51]", &[(11, true)], 4, None, Some(51)),
];

fn run_lengths(sy: &CSyl) -> Vec<(usize, usize)> { let mut v = vec![]; let mut i = 0; while i < sy.segs.len() { let mut j = i + 1; while j < sy.segs.len() && sy.segs[j] == sy.segs[i] { j += 1; } v.push((i, j - i)); i = j; } v }

/// the word typed with the marker `M` after logical segment number `target` (counted over the whole word), and the word it stands for
fn plus_case(w: &CW, target: usize, m: usize) -> Option<(String, CW)> {
    let (_, feats, lop, stress, tone) = PLUS_MATRICES[m];
    let mut text = String::new();
    let mut exp: CW = vec![];
    let mut n = 0usize; let mut hit = false;
    for (si, sy) in w.iter().enumerate() {
        text += match sy.stress { 1 => "ˈ", 2 => "ˌ", _ => if si > 0 { "." } else { "" } };
        let mut esy = CSyl { segs: vec![], stress: sy.stress, tone: sy.tone };
        for (start, len) in run_lengths(sy) {
            let one: CW = vec![CSyl { segs: sy.segs[start..start + len].to_vec(), stress: 0, tone: 0 }];
            text += &av::render_word(&word_of(&one), None);
            let mut b = sy.segs[start]; let mut l = len;
            if n == target {
                hit = true; text.push('M');
                for (f, v) in feats { b = model::set_feat(b, *f, *v); }
                l = match lop { 0 => len, 1 => len.max(2), 2 | 6 => 1, 3 | 7 => 3, 4 => len.min(2), _ => 2 };
                if let Some(s) = stress { esy.stress = s; }
                // a tone typed at the end of the same syllable comes after the marker; which of the two wins is not documented
                if let Some(t) = tone { if sy.tone != 0 { return None; } esy.tone = t; }
            }
            for _ in 0..l { esy.segs.push(b); }
            n += 1;
        }
        if sy.tone != 0 { text += &sy.tone.to_string(); }
        exp.push(esy);
    }
    // a changed segment that now equals its neighbour would be read as one longer segment: not a case for this box
    if !hit || exp.iter().zip(w.iter()).any(|(e, o)| run_lengths(e).len() != run_lengths(o).len()) { return None; }
    Some((text, exp))
}

fn plus_deromaniser_case(m: usize, ws: &[CW], a: &mut Acc) {
    let into = vec![format!("+M > {}", PLUS_MATRICES[m].0)];
    for w in ws {
        let runs: usize = w.iter().map(|sy| run_lengths(sy).len()).sum();
        for target in 0..runs {
            let Some((typed, exp)) = plus_case(w, target, m) else { a.skipped += 1; continue };
            let exp_text = av::render_word(&word_of(&exp), None);
            for rl in [RULES[0], RULES[2]] {
                a.evals += 1;
                let plain = guarded(budget_for(14, 60) * 2, || asca::run(&[group(rl)], &[exp_text.clone()], &[], &[]).map_err(|e| format!("{:?}", e)));
                let aliased = guarded(budget_for(14, 60) * 2, || asca::run(&[group(rl)], &[typed.clone()], &into, &[]).map_err(|e| format!("{:?}", e)));
                match (&plain, &aliased) {
                    (Out::Ok(x), Out::Ok(y)) if x == y => { if typed.replace('M', "") != exp_text { a.rewritten += 1; } else { a.same += 1; } }
                    (Out::Ok(_), Out::Ok(_)) => a.viols.push(Viol { key: format!("plus-deromaniser|{}|{}|{}", into[0], rl.join(" ;; "), typed), desc: format!("deromaniser `{}`: typing `{}` must behave as `{}` (the segment before the marker with the payload added); rules {:?}: {:?} vs {:?}", into[0], typed, exp_text, rl, aliased, plain), case: json!({"kind": "plusderom", "m": m, "word": cw_json(w), "target": target}) }),
                    _ => a.skipped += 1,
                }
            }
        }
    }
}

pub fn run() -> i32 {
    let mut r = Report::new("C15");
    let thorough = r.thorough();
    r.rule = "romaniser sets of one line (thorough: every ordered pair of lines, and the comma-list form of each pair) over inputs {a, a:[+long], a:[+stress], a:[+secstress], a:[+stress, -secstress], V, V:[+stress], V:[-sec.stress], [+nasal], ta, $} x replacements {Q, QQ, *, a unicode escape, a named escape, +q, +@{macron}}; x 5 rule lists x every word of W(I5,3) with and without stress (long segments included): the printed word must equal the default rendering of the structural result rewritten by a reference romaniser, both through run() and through the renderer alone; every group letter with a parameter (each own feature repeated / flipped, four foreign features) and every one-feature matrix `[±F]`, `C:[±F]` for all 26 features as romaniser input on the 365 base phones against the bit model; romaniser inputs `a`/`V` with a tone AND one of four length conditions on toned, stressed words (equal to the tone-only alias where the length condition holds, to the default rendering where it does not); deromanisers {Q > a, QQ > a:[+long], Z > ta, X > a:[+stress], S > a:[+secstress], Y > ta:[+long]n, W > a:[+long]t} on W(I5,4): run(R, encode(w), into=D) == run(R, w). Non-trivial = the alias rewrote the rendering.".into();
    r.assumptions.push("`+` only on segments that are base phones (inventory p t a i n); tone-matching aliases only through a relation between alias variants (tone+length vs tone-only vs none): the manual does not say what happens to the tones of unmatched syllables".into());
    let ws = words(3, true);
    let pool = rom_pool();
    let mut single: Vec<(RIn, ROut)> = vec![];
    for (i, outs) in &pool { for o in outs { single.push((i.clone(), o.clone())); } }
    let mut jobs: Vec<(Vec<String>, Vec<(RIn, ROut)>)> = single.iter().map(|(i, o)| (vec![format!("{} > {}", rin_text(i), rout_text(o))], vec![(i.clone(), o.clone())])).collect();
    if thorough {
        for (x, (i1, o1)) in single.iter().enumerate() { for (y, (i2, o2)) in single.iter().enumerate() {
            if x == y || (x + 2 * y) % 3 != 0 { continue; }
            jobs.push((vec![format!("{} > {}", rin_text(i1), rout_text(o1)), format!("{} > {}", rin_text(i2), rout_text(o2))], vec![(i1.clone(), o1.clone()), (i2.clone(), o2.clone())]));
            // comma-list form of the same pair (not for `$`, which stands alone)
            if !matches!(i1, RIn::Bound) && !matches!(i2, RIn::Bound) { jobs.push((vec![format!("{}, {} > {}, {}", rin_text(i1), rin_text(i2), rout_text(o1), rout_text(o2))], vec![(i1.clone(), o1.clone()), (i2.clone(), o2.clone())])); }
        } }
    } else {
        // a few ordered pairs in the quick tier as well: specific before general, and the reverse
        let pick = |t: &str| single.iter().find(|(i, o)| format!("{} > {}", rin_text(i), rout_text(o)) == t).cloned().unwrap();
        for (p, q) in [("a:[+long] > QQ", "a > Q"), ("a > Q", "a:[+long] > QQ"), ("V:[+stress] > +@{macron}", "V > +q"), ("ta > Q", "$ > *"), ("$ > \\-", "a:[+stress] > @{acute}"), ("[+nasal] > *", "V > Q")] {
            let (x, y) = (pick(p), pick(q));
            jobs.push((vec![p.to_string(), q.to_string()], vec![x.clone(), y.clone()]));
            if !p.starts_with('$') && !q.starts_with('$') { jobs.push((vec![format!("{}, {} > {}, {}", rin_text(&x.0), rin_text(&y.0), rout_text(&x.1), rout_text(&y.1))], vec![x, y])); }
        }
    }
    let mut tr = Acc::default();
    par_fold(jobs.len(), 1, Acc::default, |i, a| romaniser_case(&jobs[i].0, &jobs[i].1, &ws, a), |a| tr.merge(a));
    r.boxes.push(json!({"box": "romanisers", "alias_sets": jobs.len(), "words": ws.len(), "rule_lists": RULES.len(), "comparisons": tr.evals, "rewritten": tr.rewritten, "unchanged": tr.same, "skipped": tr.skipped}));
    r.guard(tr.rewritten > 10_000, "romanisers rewrote more than 10k renderings");
    // ---- group letters with parameters as romaniser inputs, on the one-segment words of the segment universe: the parameter
    // is added to the group's matrix and overrides the group's own value for the same feature
    let uni = super::c04::segment_universe(false);
    let mut glines: Vec<(String, Vec<(usize, bool)>)> = vec![];
    let fidx = |name: &str| model::FEATS.iter().position(|f| f.0 == name).unwrap_or_else(|| panic!("feature {name} not in the model"));
    for (g, m) in super::c12::GROUPS {
        let own: Vec<(usize, bool)> = m[1..m.len() - 1].split(", ").map(|t| (fidx(&t[1..]), t.starts_with('+'))).collect();
        let mut mods: Vec<(usize, bool)> = vec![];
        for (f, v) in &own { mods.push((*f, *v)); mods.push((*f, !*v)); }
        for extra in ["nasal", "voice", "cont", "lat"] { let f = fidx(extra); if !own.iter().any(|x| x.0 == f) { mods.push((f, true)); mods.push((f, false)); } }
        for (f, v) in mods {
            let mut want: Vec<(usize, bool)> = own.iter().filter(|x| x.0 != f).cloned().collect(); want.push((f, v));
            glines.push((format!("{}:[{}{}] > Q", g, if v { "+" } else { "-" }, model::FEATS[f].0), want));
        }
    }
    // bare matrices with one feature of every kind (root, manner, laryngeal and the place features, whose sub-node may be absent:
    // an absent sub-node matches neither value) and IPA + one feature
    for (f, ft) in model::FEATS.iter().enumerate() { for v in [true, false] {
        glines.push((format!("[{}{}] > Q", if v { "+" } else { "-" }, ft.0), vec![(f, v)]));
        glines.push((format!("C:[{}{}] > Q", if v { "+" } else { "-" }, ft.0), if f == 2 { vec![(2, v)] } else { vec![(2, false), (f, v)] }));
    } }
    let mut tg = Acc::default();
    par_fold(glines.len(), 1, Acc::default, |i, a| {
        let (line, want) = &glines[i];
        for (gr, b) in &uni {
            a.evals += 1;
            // the default rendering of the bundle (some graphemes share a bundle: `ɢǀ` prints as `qǀ`)
            let plain = av::render_word(&word_of(&vec![CSyl { segs: vec![*b], stress: 0, tone: 0 }]), None);
            if plain.contains('\u{FFFD}') { a.skipped += 1; continue; }
            let expect = if want.iter().all(|(f, v)| model::feat(*b, *f) == Some(*v)) { "Q".to_string() } else { plain };
            match guarded(500_000, || asca::run(&[], &[gr.clone()], &[], &[line.clone()]).map_err(|e| format!("{:?}", e))) {
                Out::Ok(Ok(v)) if v.len() == 1 && v[0] == expect => { if expect == "Q" { a.rewritten += 1; } else { a.same += 1; } }
                Out::Ok(x) => a.viols.push(Viol { key: format!("group-romaniser|{}|{}", line, gr), desc: format!("romaniser `{}` on `{}`: expected `{}`, run printed {:?}", line, gr, expect, x), case: json!({"kind": "grom", "line": line, "word": gr, "expect": expect}) }),
                _ => a.skipped += 1,
            }
        }
    }, |a| tg.merge(a));
    r.boxes.push(json!({"box": "group letters with a parameter as romaniser input x segment universe", "alias_lines": glines.len(), "segments": uni.len(), "comparisons": tg.evals, "rewritten": tg.rewritten, "unchanged": tg.same}));
    r.guard(tg.rewritten > 1000, "group romanisers rewrote more than 1000 segments");
    // ---- romaniser inputs that carry BOTH a tone and a length condition: relation between alias variants (no model of tone printing
    // needed): where every candidate segment (base match in a tone-5 syllable) meets the length condition the output equals that of the
    // tone-only alias; where none does it equals the output without alias; mixed words are skipped
    let tone_words: Vec<CW> = { let mut v = vec![]; for (k, w) in words(3, false).into_iter().enumerate() { for d in 0..2usize { let mut x = w.clone(); for (i, sy) in x.iter_mut().enumerate() { sy.tone = if (k + i + d) % 2 == 0 { 5 } else { [0, 51][(k / 2 + i) % 2] }; sy.stress = ((k / 3 + i) % 3) as u8; } v.push(x); } } v };
    let lens: [(&str, fn(usize) -> bool); 4] = [("-long", |n| n == 1), ("+long", |n| n >= 2), ("+overlong", |n| n >= 3), ("-overlong", |n| n < 3)];
    let mut tl_jobs: Vec<(&str, usize)> = vec![]; for b in ["a", "V"] { for li in 0..lens.len() { tl_jobs.push((b, li)); } }
    let mut tt = Acc::default();
    par_fold(tl_jobs.len(), 1, Acc::default, |i, a| {
        let (base, li) = tl_jobs[i];
        let full = vec![format!("{}:[{}, tone: 5] > X", base, lens[li].0)];
        let tone_only = vec![format!("{}:[tone: 5] > X", base)];
        let aseg = seg("a");
        for w in &tone_words {
            // candidate runs
            let (mut yes, mut no) = (0, 0);
            for sy in w { if sy.tone != 5 { continue; } let mut j = 0; while j < sy.segs.len() { let mut n = 1; while j + n < sy.segs.len() && sy.segs[j + n] == sy.segs[j] { n += 1; } if (base == "a" && sy.segs[j] == aseg) || (base == "V" && is_v(sy.segs[j])) { if (lens[li].1)(n) { yes += 1; } else { no += 1; } } j += n; } }
            if yes > 0 && no > 0 { a.skipped += 1; continue; }
            let text = av::render_word(&word_of(w), None);
            let run = |al: &Vec<String>| guarded(500_000, || asca::run(&[], &[text.clone()], &[], al).map_err(|e| format!("{:?}", e)));
            let got = run(&full);
            // an alias with a length condition consumes the whole run of copies, the tone-only alias one copy: `Xː` there is `X` here
            let collapse = |o: Out<Result<Vec<String>, String>>| match o { Out::Ok(Ok(v)) => Out::Ok(Ok(v.into_iter().map(|t| t.replace("Xːː", "X").replace("Xː", "X")).collect::<Vec<_>>())), x => x };
            let want = if yes > 0 { collapse(run(&tone_only)) } else { run(&vec![]) };
            a.evals += 1;
            match (&got, &want) {
                (Out::Ok(g), Out::Ok(x)) if g == x => { if yes > 0 { a.rewritten += 1; } else { a.same += 1; } }
                (Out::Ok(g), Out::Ok(x)) => a.viols.push(Viol { key: format!("tone+length|{}|{}", full[0], text), desc: format!("romaniser `{}` on `{}` ({} candidate segment(s) meet the length condition, {} do not): printed {:?}, expected {:?} (= {})", full[0], text, yes, no, g, x, if yes > 0 { format!("what `{}` prints", tone_only[0]) } else { "the default rendering".into() }), case: json!({"kind": "tonelen", "full": full[0], "tone_only": tone_only[0], "word": text, "all_meet": yes > 0}) }),
                _ => a.skipped += 1,
            }
        }
    }, |a| tt.merge(a));
    r.boxes.push(json!({"box": "romaniser inputs with a tone and a length condition vs the tone-only alias / no alias", "alias_lines": tl_jobs.len(), "words": tone_words.len(), "comparisons": tt.evals, "equal_to_tone_only_alias": tt.rewritten, "equal_to_default": tt.same, "skipped_mixed": tt.skipped}));
    r.guard(tt.rewritten > 500 && tt.same > 500, "tone+length aliases: both sides of the relation occur more than 500 times");
    let wd = words(4, true);
    let mut td = Acc::default();
    par_fold(DEROM.len(), 1, Acc::default, |i, a| deromaniser_case(i, &wd, a), |a| td.merge(a));
    r.boxes.push(json!({"box": "deromanisers", "alias_sets": DEROM.len(), "words": wd.len(), "comparisons": td.evals, "both_ok": td.rewritten, "both_err": td.same, "skipped": td.skipped}));
    r.guard(td.rewritten > 1_000, "deromanisers: more than 1000 encoded words compared");
    // romanisers act inside one syllable (no `$` alias here): a word prints as its syllables print on their own, joined by the default marks.
    // Tone conditions are the interesting inputs: what one syllable's alias does to its tone digits must not reach the next syllable
    let syl_aliases: Vec<Vec<&str>> = vec![vec!["a:[tone: 5] > X"], vec!["a:[tone: 5]m > X"], vec!["ma:[tone: 51] > Y"], vec!["V:[tone: 5] > +@{acute}"], vec!["[+nasal, tone: 5] > N"], vec!["a:[tone: 5] > X", "m > M"], vec!["m > M", "a:[tone: 51, +stress] > Z"], vec!["a:[+long, tone: 5] > L"], vec!["V:[+stress] > +@{acute}", "a:[tone: 3] > *"],
        // `+` on segments that are not bare letters (tʰ, ã): the base letter printed for a matched occurrence must not replace the spelling of an unmatched one
        vec!["C:[+stress] > +x"], vec!["[+syll, +stress] > +@{acute}"], vec!["[+sg, tone: 5] > +H", "m > M"]];
    let (sm, sa) = (seg("m"), seg("a"));
    let mut sylls: Vec<CSyl> = vec![];
    let (sth, snas) = (seg("tʰ"), seg("a\u{303}"));
    for segs in [vec![sm, sa], vec![sa], vec![sm, sa, sm], vec![sm, sa, sa], vec![sth, sa], vec![sth, snas]] { for tone in [0u16, 5, 51, 3] { for stress in [0u8, 1] { sylls.push(CSyl { segs: segs.clone(), stress, tone }); } } }
    let mut syl_words: Vec<CW> = vec![];
    for a in &sylls { for b in &sylls { syl_words.push(vec![a.clone(), b.clone()]); } }
    for (k, a) in sylls.iter().enumerate() { for (l, b) in sylls.iter().enumerate() { for c in sylls.iter().skip((k + l) % 5).step_by(5) { syl_words.push(vec![a.clone(), b.clone(), c.clone()]); } } }
    let mut tsy = Acc::default();
    par_fold(syl_aliases.len(), 1, Acc::default, |i, a| {
        let lines: Vec<String> = syl_aliases[i].iter().map(|x| x.to_string()).collect();
        let Out::Ok(Ok(al)) = guarded(500_000, || av::compile_aliases(&[], &lines)) else { a.viols.push(Viol { key: format!("romaniser-rejected|{}", lines.join(" ;; ")), desc: format!("romaniser {:?} rejected", lines), case: json!({"kind": "syl"}) }); return; };
        for w in &syl_words {
            a.evals += 1;
            let whole = guarded(500_000, || av::render_word(&word_of(w), Some(&al)));
            let mut parts = String::new();
            for (n, sy) in w.iter().enumerate() {
                if n > 0 && sy.stress == 0 { parts.push('.'); }
                match guarded(500_000, || av::render_word(&word_of(&vec![sy.clone()]), Some(&al))) { Out::Ok(t) => parts += &t, _ => { parts.clear(); break; } }
            }
            match whole {
                Out::Ok(t) if t == parts => { if t != av::render_word(&word_of(w), None) { a.rewritten += 1; a.outs.insert(hash64(&t)); } else { a.same += 1; } }
                Out::Ok(t) => a.viols.push(Viol { key: format!("romaniser-syllables|{}|{}", lines.join(" ;; "), show_cw(w)), desc: format!("romaniser {:?}: /{}/ prints as `{}`, its syllables on their own print as `{}` (default rendering `{}`)", lines, show_cw(w), t, parts, av::render_word(&word_of(w), None)), case: json!({"kind": "syl", "lines": lines, "word": cw_json(w)}) }),
                o => a.viols.push(Viol { key: format!("romaniser-syllables|crash|{}", lines.join(" ;; ")), desc: o.crash_desc().unwrap(), case: json!({"kind": "syl", "lines": lines, "word": cw_json(w)}) }),
            }
        }
    }, |a| tsy.merge(a));
    r.boxes.push(json!({"box": "romanisers with tone / stress / length conditions: a word prints as its syllables print on their own", "alias_sets": syl_aliases.len(), "words": syl_words.len(), "comparisons": tsy.evals, "rewritten": tsy.rewritten, "unchanged": tsy.same}));
    r.guard(tsy.rewritten > 2_000 && tsy.same > 500, "syllable-wise box: rewritten and unchanged words both occur");
    // words typed in Americanist notation print in it by default; a romaniser that matches nothing in them (or only removes boundaries) leaves that rendering alone
    let am_words = ["¢a", "ła.ña", "ƛa.λa", "ˈ¢a.ła", "t͡sa.ɬa"];
    let am_aliases: Vec<(Vec<&str>, bool)> = vec![(vec!["b > B"], false), (vec!["[+nasal, +long] > +N"], false), (vec!["i:[+stress] > +@{acute}"], false), (vec!["$ > *"], true), (vec!["b > B", "$ > *"], true)];
    // ... and one that does match puts its own string there, letter for letter, also when that string looks like Americanist input
    let am_subst: Vec<(&str, &str, &str)> = vec![("a > ɬ", "a", "ɬ"), ("a > ɲɲ", "a", "ɲɲ"), ("a > t͡s", "a", "t͡s"), ("a > at͡ɬ", "a", "at͡ɬ"), ("a > A", "a", "A"),
        // replacement strings are printed as given, also when they hold a character the WORD reader would normalise
        ("a > \u{e3}", "a", "\u{e3}"), ("a > ǝ", "a", "ǝ"), ("a > ɚx", "a", "ɚx"), ("a > ℎ", "a", "ℎ"), ("a > õh", "a", "õh")];
    let mut tam = Acc::default();
    for (lines, strip) in &am_aliases { for wtxt in am_words { for rl in [RULES[0], RULES[1]] {
        tam.evals += 1;
        let ls: Vec<String> = lines.iter().map(|x| x.to_string()).collect();
        let plain = guarded(budget_for(14, 60) * 2, || asca::run(&[group(rl)], &[wtxt.to_string()], &[], &[]).map_err(|e| format!("{:?}", e)));
        let with = guarded(budget_for(14, 60) * 2, || asca::run(&[group(rl)], &[wtxt.to_string()], &[], &ls).map_err(|e| format!("{:?}", e)));
        let want = match &plain { Out::Ok(Ok(v)) => Some(v.iter().map(|t| if *strip { let t = t.replace('.', ""); t.replace(['ˈ', 'ˌ'], "") } else { t.clone() }).collect::<Vec<_>>()), _ => None };
        match (&with, want) {
            (Out::Ok(Ok(v)), Some(w)) if *v == w => { tam.rewritten += 1; }
            (_, None) => tam.skipped += 1,
            (g, Some(w)) => tam.viols.push(Viol { key: format!("romaniser-americanist|{}|{}|{}", lines.join(" ;; "), rl.join(" ;; "), wtxt), desc: format!("romaniser {:?} matches nothing in `{}` (rules {:?}): the default rendering is {:?}, printed {:?}", lines, wtxt, rl, w, g), case: json!({"kind": "amer"}) }),
        }
    } } }
    for (line, from, to) in &am_subst { for wtxt in am_words { for rl in [RULES[0], RULES[1]] {
        tam.evals += 1;
        let plain = guarded(budget_for(14, 60) * 2, || asca::run(&[group(rl)], &[wtxt.to_string()], &[], &[]).map_err(|e| format!("{:?}", e)));
        let with = guarded(budget_for(14, 60) * 2, || asca::run(&[group(rl)], &[wtxt.to_string()], &[], &[line.to_string()]).map_err(|e| format!("{:?}", e)));
        let want = match &plain { Out::Ok(Ok(v)) => Some(v.iter().map(|t| t.replace(from, to)).collect::<Vec<_>>()), _ => None };
        match (&with, want) {
            (Out::Ok(Ok(v)), Some(w)) if *v == w => { tam.rewritten += 1; }
            (_, None) => tam.skipped += 1,
            (g, Some(w)) => tam.viols.push(Viol { key: format!("romaniser-americanist|{}|{}|{}", line, rl.join(" ;; "), wtxt), desc: format!("romaniser `{}` on the Americanist word `{}` (rules {:?}): the default rendering with every `{}` replaced is {:?}, printed {:?}", line, wtxt, rl, from, w, g), case: json!({"kind": "amer"}) }),
        }
    } } }
    r.boxes.push(json!({"box": "Americanist words under romanisers that match none of their segments", "comparisons": tam.evals, "equal_to_default": tam.rewritten}));
    tsy.merge(tam);
    td.merge(tsy);
    // comma lists in alias lines stand for their members one per line, in both directions and for every pairing of list lengths the manual shows:
    // n strings to n targets, n strings to one target (deromaniser), n segments to one string (romaniser)
    let list_cases: Vec<(bool, &str, Vec<&str>)> = vec![
        (true, "c, q > k", vec!["c > k", "q > k"]), (true, "c, q > k, ɡ", vec!["c > k", "q > ɡ"]), (true, "f, ph, v > f", vec!["f > f", "ph > f", "v > f"]),
        (true, "aa, á, A > a:[+long]", vec!["aa > a:[+long]", "á > a:[+long]", "A > a:[+long]"]), (true, "sh, ch > ʃ, t͡ʃ", vec!["sh > ʃ", "ch > t͡ʃ"]), (true, "x, +h > k, [+sg]", vec!["x > k", "+h > [+sg]"]),
        (false, "θ, ð > þ", vec!["θ > þ", "ð > þ"]), (false, "k, ɡ > c, g", vec!["k > c", "ɡ > g"]), (false, "a:[+long], a:[+stress], a > A, Á, æ", vec!["a:[+long] > A", "a:[+stress] > Á", "a > æ"]), (false, "p, t, k > *", vec!["p > *", "t > *", "k > *"]),
    ];
    let list_words: Vec<String> = ["ca.qa", "qa.ca.ka", "pha.fa.va", "aa.tá.tA", "sha.cha", "xa.kha.tha", "θa.ða", "ka.ɡa", "ˈpaː.ta.ka", "pa.ta.ka", "a"].iter().map(|s| s.to_string()).collect();
    let mut tl = Acc::default();
    for (is_into, list, lines) in &list_cases { for w in &list_words { for rl in [RULES[0], RULES[1]] {
        tl.evals += 1;
        let one = vec![list.to_string()]; let many: Vec<String> = lines.iter().map(|x| x.to_string()).collect();
        let none: Vec<String> = vec![];
        let run_with = |al: &Vec<String>| guarded(budget_for(14, 80) * 2, || if *is_into { asca::run(&[group(rl)], &[w.clone()], al, &none) } else { asca::run(&[group(rl)], &[w.clone()], &none, al) }.map_err(|e| format!("{:?}", std::mem::discriminant(&e))));
        match (run_with(&one), run_with(&many)) {
            (Out::Ok(x), Out::Ok(y)) if x == y => { if x.is_ok() { tl.rewritten += 1; } else { tl.same += 1; } }
            (x, y) => tl.viols.push(Viol { key: format!("alias-list|{}|{}|{}", list, rl.join(" ;; "), w), desc: format!("{} `{}` on `{}` (rules {:?}) gives {:?}, its members one per line {:?} give {:?}", if *is_into { "deromaniser" } else { "romaniser" }, list, w, rl, x.crash_desc().map(|c| c.to_string()).or(match &x { Out::Ok(v) => Some(format!("{:?}", v)), _ => None }), lines, match &y { Out::Ok(v) => format!("{:?}", v), o => o.crash_desc().unwrap_or_default() }), case: json!({"kind": "amer"}) }),
        }
    } } }
    r.boxes.push(json!({"box": "comma lists in alias lines vs their members one per line (6 deromaniser, 4 romaniser lists)", "comparisons": tl.evals, "equal_ok": tl.rewritten, "equal_err": tl.same}));
    r.guard(tl.rewritten > 100, "alias lists: more than 100 equal Ok outcomes");
    td.merge(tl);
    // `+` romanisers over SEVERAL segments, one of them a long vowel matched by a length condition: the string is added to the normal letters of
    // all matched segments (a segment matched as a whole long segment is written once, without its length mark - the manual's macron example)
    {
        // element = (text, matches consonant c?, vowel length condition: 0 none (consonant), 1 [+long], 2 [-long], 3 [+overlong])
        let cons = |t: &'static str| (t, 0u8);
        let pats: Vec<Vec<(&str, u8)>> = vec![
            vec![cons("t"), ("a:[+long]", 1)], vec![cons("C"), ("V:[+long]", 1)], vec![cons("C"), ("a:[-long]", 2)], vec![("a:[+long]", 1), cons("p")], vec![("V:[+overlong]", 3), cons("C")],
            vec![cons("t"), ("a:[+long]", 1), cons("p")], vec![cons("m"), ("V:[-long]", 2), cons("p")], vec![cons("C"), ("a:[+overlong]", 3)],
        ];
        let mut tm = Acc::default();
        for pat in &pats { for onset in ["t", "m", ""] { for len in 1..=3usize { for coda in ["p", "t", ""] { for stress in ["", "ˈ"] { for extra in ["", ".i"] {
            tm.evals += 1;
            let line = format!("{} > +h", pat.iter().map(|e| e.0).collect::<Vec<_>>().join(" "));
            let vowel = format!("a{}", "ː".repeat(len - 1));
            let word = format!("{}{}{}{}{}", stress, onset, vowel, coda, extra);
            // the segments of the first syllable as (letter, copies)
            let mut segs: Vec<(&str, usize)> = vec![]; if !onset.is_empty() { segs.push((onset, 1)); } segs.push(("a", len)); if !coda.is_empty() { segs.push((coda, 1)); }
            let el_ok = |e: &(&str, u8), sg: &(&str, usize)| -> bool { match e.1 { 0 => sg.0 != "a" && (e.0 == "C" || e.0 == sg.0), 1 => sg.0 == "a" && sg.1 >= 2, 2 => sg.0 == "a" && sg.1 == 1, _ => sg.0 == "a" && sg.1 == 3 } };
            let mut out = String::from(stress); let mut k = 0;
            while k < segs.len() {
                if k + pat.len() <= segs.len() && pat.iter().zip(&segs[k..]).all(|(e, sg)| el_ok(e, sg)) {
                    for (e, sg) in pat.iter().zip(&segs[k..]) { out += sg.0; if e.1 == 0 || e.1 == 2 { out += &"ː".repeat(sg.1 - 1); } }
                    out += "h"; k += pat.len();
                } else { out += segs[k].0; out += &"ː".repeat(segs[k].1 - 1); k += 1; }
            }
            out += extra;
            let none: Vec<String> = vec![];
            match guarded(budget_for(10, 40) * 2, || asca::run(&[], &[word.clone()], &none, &[line.clone()]).map_err(|e| format!("{:?}", e))) {
                Out::Ok(Ok(v)) if v == vec![out.clone()] => { if out != word { tm.rewritten += 1; } else { tm.same += 1; } }
                o => tm.viols.push(Viol { key: format!("plus-multi|{}|{}", line, word), desc: format!("romaniser `{}` on `{}`: expected `{}` (the letters of the matched segments, then the string), got {}", line, word, out, match &o { Out::Ok(v) => format!("{:?}", v), c => c.crash_desc().unwrap_or_default() }), case: json!({"kind": "amer"}) }),
            }
        } } } } } }
        r.boxes.push(json!({"box": "`+` romanisers over several segments with a length condition on one of them", "alias_lines": pats.len(), "comparisons": tm.evals, "rewritten": tm.rewritten, "unchanged": tm.same}));
        r.guard(tm.rewritten > 100 && tm.same > 100, "multi-segment + romanisers: rewritten and unchanged words both occur");
        td.merge(tm);
    }
    // custom mappings are applied before the inbuilt aliases (doc.md): a deromaniser whose string is an inbuilt alias character (ASCII shorthand letters,
    // americanist characters) must win over the inbuilt reading, and typing that character must then behave exactly as typing the deromaniser's target
    let inbuilt = ["ł", "ñ", "¢", "ƛ", "λ", "S", "Z", "C", "G", "N", "B", "R", "X", "H", "A", "E", "I", "O", "U", "Y", "g", "?", "!", "φ", "ǝ", "ã", "ẽ", "ĩ", "õ", "ũ", "ỹ", "ɚ", "ɝ", "ꭤ", "ℇ", "ℎ", "ℏ"];
    let targets = [("w", "w"), ("k", "k"), ("o:[+long]", "oː"), ("t͡s", "t͡s")];
    let mut ti = Acc::default();
    for x in inbuilt { for (t_alias, t_typed) in targets { for frame in ["a①a", "①a", "a.①a", "ta①", "①a.②a①", "ˈ①a5.ta"] { for rl in [RULES[0], RULES[1]] {
        ti.evals += 1;
        let other = if x == "ñ" { "ł" } else { "ñ" };
        let with_x = frame.replace('①', x).replace('②', other); let with_t = frame.replace('①', t_typed).replace('②', other);
        // the deromaniser string typed literally, and (second round) spelled with a code point escape
        for escaped in [false, true] {
        if escaped && (x.chars().count() != 1 || frame != "a①a") { continue; }
        if escaped { ti.evals += 1; }
        let into = vec![if escaped { format!("\\u{{{:04X}}} > {}", x.chars().next().unwrap() as u32, t_alias) } else { format!("{} > {}", x, t_alias) }]; let none: Vec<String> = vec![];
        let a1 = guarded(budget_for(14, 80) * 2, || asca::run(&[group(rl)], &[with_x.clone()], &into, &none).map_err(|e| format!("{:?}", std::mem::discriminant(&e))));
        let a2 = guarded(budget_for(14, 80) * 2, || asca::run(&[group(rl)], &[with_t.clone()], &none, &none).map_err(|e| format!("{:?}", std::mem::discriminant(&e))));
        match (a1, a2) {
            (Out::Ok(u), Out::Ok(v)) if u == v => { if u.is_ok() { ti.rewritten += 1; } else { ti.same += 1; } }
            (u, v) => ti.viols.push(Viol { key: format!("inbuilt-deromaniser|{}|{}|{}|{}|{}", x, t_alias, frame, rl.join(" ;; "), if escaped { "escaped" } else { "literal" }), desc: format!("deromaniser `{}` on `{}` (rules {:?}) gives {}, typing `{}` without it gives {}: a custom mapping is applied before the inbuilt alias of the same character", into[0], with_x, rl, match &u { Out::Ok(z) => format!("{:?}", z), o => o.crash_desc().unwrap_or_default() }, with_t, match &v { Out::Ok(z) => format!("{:?}", z), o => o.crash_desc().unwrap_or_default() }), case: json!({"kind": "amer"}) }),
        }
        }
    } } } }
    r.boxes.push(json!({"box": "deromanisers whose string is an inbuilt alias character (37 characters: ASCII shorthands, americanist letters, characters the word reader normalises; x 4 targets x 6 frames x 2 rule lists)", "comparisons": ti.evals, "equal_ok": ti.rewritten, "equal_err": ti.same}));
    r.guard(ti.rewritten > 1200, "inbuilt-character deromanisers: more than 800 equal Ok outcomes");
    td.merge(ti);
    // `+` deromanisers: every matrix x every word of W(I3,3) (long and overlong segments, stress, tone) x every segment position
    let wp: Vec<CW> = { let inv: Vec<SegBits> = ["t", "a", "n"].iter().map(|t| seg(t)).collect(); let mut v = vec![];
        for (k, w) in word_space(&inv, 3).into_iter().enumerate() { v.push(w.clone()); let mut x = w.clone(); for (i, sy) in x.iter_mut().enumerate() { sy.stress = ((k + i) % 3) as u8; sy.tone = [0, 5, 51][(k / 2 + i) % 3]; } v.push(x); } v };
    let mut tp = Acc::default();
    par_fold(PLUS_MATRICES.len(), 1, Acc::default, |i, a| plus_deromaniser_case(i, &wp, a), |a| tp.merge(a));
    r.boxes.push(json!({"box": "`+` deromanisers with a bare matrix (features, length, stress, tone) after every segment of every word", "matrices": PLUS_MATRICES.len(), "words": wp.len(), "comparisons": tp.evals, "payload_changes_word": tp.rewritten, "payload_changes_nothing": tp.same, "skipped": tp.skipped}));
    r.guard(tp.rewritten > 5_000, "`+` deromanisers: more than 5000 words changed by the payload");
    td.merge(tp);
    r.evaluations = tr.evals + td.evals + tg.evals + tt.evals; r.transitions = r.evaluations * 2; r.validated = tr.rewritten + tr.same + td.rewritten + td.same + tg.rewritten + tg.same + tt.rewritten + tt.same; r.nontrivial = tr.rewritten + td.rewritten + tg.rewritten + tt.rewritten;
    let mut outs = tr.outs.clone(); outs.extend(td.outs.iter()); r.states = outs;
    r.sample(json!({"romaniser": jobs[3].0, "word": show_cw(&ws[100]), "model": romanise(&ws[100], &jobs[3].1)}));
    r.sample(json!({"deromaniser": DEROM[3], "word": show_cw(&wd[wd.len() - 3]), "encoded": encode(3, &wd[wd.len() - 3])}));
    for v in tr.viols.into_iter().chain(td.viols).chain(tg.viols).chain(tt.viols) { r.viol(v); }
    r.finish()
}

pub fn replay(case: &Value) -> Result<String, String> {
    if case["kind"].as_str() == Some("plusderom") {
        let w = cw_from_json(&case["word"]).ok_or("word")?;
        let mut a = Acc::default();
        plus_deromaniser_case(case["m"].as_u64().unwrap_or(0) as usize, &[w], &mut a);
        let t = case["target"].as_u64().unwrap_or(0);
        return match a.viols.iter().find(|v| v.case["target"].as_u64() == Some(t)) { Some(v) => Err(v.desc.clone()), None => Ok("the marker adds its payload to the segment before it".into()) };
    }
    if case["kind"].as_str() == Some("tonelen") {
        let text = case["word"].as_str().unwrap_or("").to_string();
        let run = |al: Vec<String>| guarded(500_000, || asca::run(&[], &[text.clone()], &[], &al).map_err(|e| format!("{:?}", e)));
        let got = run(vec![case["full"].as_str().unwrap_or("").to_string()]);
        let want = if case["all_meet"].as_bool().unwrap_or(false) { match run(vec![case["tone_only"].as_str().unwrap_or("").to_string()]) { Out::Ok(Ok(v)) => Out::Ok(Ok(v.into_iter().map(|t| t.replace("Xːː", "X").replace("Xː", "X")).collect::<Vec<_>>())), x => x } } else { run(vec![]) };
        return match (got, want) { (Out::Ok(g), Out::Ok(x)) if g == x => Ok(format!("prints {:?} as expected", g)), (g, x) => Err(format!("printed {:?}, expected {:?}", g.crash_desc().or(None), x.crash_desc().or(None))) };
    }
    if case["kind"].as_str() == Some("grom") {
            let (line, word, expect) = (case["line"].as_str().unwrap_or("").to_string(), case["word"].as_str().unwrap_or("").to_string(), case["expect"].as_str().unwrap_or(""));
            return match guarded(500_000, || asca::run(&[], &[word.clone()], &[], &[line.clone()]).map_err(|e| format!("{:?}", e))) { Out::Ok(Ok(v)) if v.len() == 1 && v[0] == expect => Ok(format!("`{}` prints `{}` as `{}`", line, word, expect)), Out::Ok(x) => Err(format!("romaniser `{}` on `{}`: expected `{}`, run printed {:?}", line, word, expect, x)), o => Err(o.crash_desc().unwrap()) };
    }
    let w = cw_from_json(&case["word"]).ok_or("word")?;
    let mut a = Acc::default();
    match case["kind"].as_str() {
        Some("rom") => {
            let lines: Vec<String> = case["lines"].as_array().ok_or("lines")?.iter().map(|x| x.as_str().unwrap_or("").to_string()).collect();
            // rebuild the model aliases from the line texts
            let pool = rom_pool();
            let mut model_al = vec![];
            for l in &lines {
                let (lhs, rhs) = l.split_once(" > ").ok_or("line")?;
                let ins: Vec<&str> = lhs.split(", ").collect(); let outs: Vec<&str> = rhs.split(", ").collect();
                for (i, o) in ins.iter().zip(outs.iter()) {
                    let (ri, ros) = pool.iter().find(|(x, _)| rin_text(x) == *i).ok_or("unknown input")?;
                    let ro = ros.iter().find(|x| rout_text(x) == *o).ok_or("unknown output")?;
                    model_al.push((ri.clone(), ro.clone()));
                }
            }
            romaniser_case(&lines, &model_al, &[w], &mut a);
        }
        Some("derom") => deromaniser_case(case["d"].as_u64().unwrap_or(0) as usize, &[w], &mut a),
        _ => return Err("unknown case".into()),
    }
    match a.viols.first() { Some(v) => Err(v.desc.clone()), None => Ok("aliases only change notation".into()) }
}
