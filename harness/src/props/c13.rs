//! C13 — alternative spellings of the same rule or word behave identically.
use crate::rulegen;
use crate::util::*;
use serde_json::{json, Value};
use std::collections::BTreeMap;

type Outcome = Vec<String>;

fn variant(e: &str) -> String {
    // "RuleSyn(ExpectedEndLine(Token..." -> "RuleSyn(ExpectedEndLine"
    let mut parts = e.splitn(3, '(');
    format!("{}({}", parts.next().unwrap_or(""), parts.next().unwrap_or(""))
}
fn run_outcome(rules: &[String], words: &[String], into: &[String], from: &[String]) -> Option<Outcome> {
    // one call per word so that one failing word does not hide the others
    let g: Vec<asca::RuleGroup> = rules.iter().map(|r| group(&[r])).collect();
    let rl: usize = rules.iter().map(|r| r.chars().count() + 1).sum::<usize>() + into.iter().chain(from).map(|r| r.chars().count()).sum::<usize>();
    let mut out = vec![];
    for w in words {
        match guarded(budget_for(w.chars().count() + 4, rl), || asca::run(&g, &[w.clone()], into, from)) {
            Out::Ok(Ok(v)) => out.push(format!("Ok:{}", v.join(" "))),
            Out::Ok(Err(e)) => out.push(format!("Err:{}", variant(&format!("{:?}", e)))),
            _ => return None, // crashes are C02's
        }
    }
    Some(out)
}

#[derive(Default)]
struct Acc { evals: u64, equal_ok: u64, equal_err: u64, skipped_crash: u64, viols: Vec<Viol>, outs: std::collections::BTreeSet<u64>, per_kind: BTreeMap<String, u64> }
impl Acc { fn merge(&mut self, o: Acc) { self.evals += o.evals; self.equal_ok += o.equal_ok; self.equal_err += o.equal_err; self.skipped_crash += o.skipped_crash; self.viols.extend(o.viols); self.outs.extend(o.outs); for (k, v) in o.per_kind { *self.per_kind.entry(k).or_insert(0) += v; } } }

fn cmp(kind: &str, a_rules: &[String], b_rules: &[String], a_words: &[String], b_words: &[String], a_al: (&[String], &[String]), b_al: (&[String], &[String]), acc: &mut Acc) {
    let Some(x) = run_outcome(a_rules, a_words, a_al.0, a_al.1) else { acc.skipped_crash += 1; return };
    cmp_with(kind, &x, a_rules, b_rules, a_words, b_words, a_al, b_al, acc)
}
fn cmp_with(kind: &str, x: &Outcome, a_rules: &[String], b_rules: &[String], a_words: &[String], b_words: &[String], a_al: (&[String], &[String]), b_al: (&[String], &[String]), acc: &mut Acc) {
    let Some(y) = run_outcome(b_rules, b_words, b_al.0, b_al.1) else { acc.skipped_crash += 1; return };
    for i in 0..x.len() {
        acc.evals += 1;
        if x[i] == y[i] { if x[i].starts_with("Ok") { acc.equal_ok += 1; acc.outs.insert(hash64(&x[i])); } else { acc.equal_err += 1; } *acc.per_kind.entry(kind.to_string()).or_insert(0) += 1; }
        else {
            let desc_a = format!("{}{}", a_rules.join(" ;; "), if a_al.0.is_empty() && a_al.1.is_empty() { String::new() } else { format!(" [into {:?} from {:?}]", a_al.0, a_al.1) });
            let desc_b = format!("{}{}", b_rules.join(" ;; "), if b_al.0.is_empty() && b_al.1.is_empty() { String::new() } else { format!(" [into {:?} from {:?}]", b_al.0, b_al.1) });
            // word respellings are keyed by the word pair alone (the rule list does not matter to the finding)
            let key = if kind.starts_with("word-") { format!("{}|{} ~ {}", kind, a_words[i], b_words[i]) } else { format!("{}|{} ~ {}|{} ~ {}", kind, desc_a, desc_b, a_words[i], b_words[i]) };
            acc.viols.push(Viol { key, desc: format!("`{}` on `{}` gives {}, its respelling `{}` on `{}` gives {}", desc_a, a_words[i], x[i], desc_b, b_words[i], y[i]),
                case: json!({"kind": kind, "a_rules": a_rules, "b_rules": b_rules, "a_word": a_words[i], "b_word": b_words[i], "a_into": a_al.0, "a_from": a_al.1, "b_into": b_al.0, "b_from": b_al.1}) });
        }
    }
}

/// replace the n-th occurrence (or all when n == usize::MAX) of `from` by `to`
fn respell(s: &str, from: &str, to: &str, nth: usize) -> Option<String> {
    if nth == usize::MAX { return if s.contains(from) { Some(s.replace(from, to)) } else { None }; }
    let idx: Vec<usize> = s.match_indices(from).map(|x| x.0).collect();
    let i = *idx.get(nth)?;
    Some(format!("{}{}{}", &s[..i], to, &s[i + from.len()..]))
}
fn occurrences(s: &str, from: &str) -> usize { s.matches(from).count() }

/// every variable `1` (declaration `=1` and references) renamed; digits inside optionals `(X,1:2)`, matrices and tones are left alone
fn renumber(rule: &str, to: &str) -> String {
    let cs: Vec<char> = rule.chars().collect();
    let mut out = String::new();
    let (mut paren, mut square) = (0i32, 0i32);
    for i in 0..cs.len() {
        let c = cs[i];
        match c { '(' => paren += 1, ')' => paren -= 1, '[' => square += 1, ']' => square -= 1, _ => {} }
        let prev = if i > 0 { cs[i - 1] } else { ' ' };
        let next = if i + 1 < cs.len() { cs[i + 1] } else { ' ' };
        if c == '1' && paren == 0 && square == 0 && !prev.is_ascii_digit() && !next.is_ascii_digit() && prev != ':' { out.push_str(to); } else { out.push(c); }
    }
    out
}

fn space_out_matrices(s: &str) -> Option<String> {
    if !s.contains('[') { return None; }
    let mut out = String::new(); let mut depth = 0;
    // the manual shows spaces inside feature names (`[ + d e l . r e l . ]`); the `tone:NN` token is kept whole
    let cs: Vec<char> = s.chars().collect();
    let mut i = 0;
    while i < cs.len() {
        let c = cs[i];
        if c == '[' { depth += 1; }
        if depth > 0 && cs[i..].starts_with(&['t', 'o', 'n', 'e']) { while i < cs.len() && cs[i] != ',' && cs[i] != ']' { out.push(cs[i]); i += 1; } out.push(' '); continue; }
        // `-α` / `-A` stays together: after `- ` a capital is read as a (capitalised) feature or node name, e.g. `- PHR` in the test suite
        let keeps_next = c == '-' && i + 1 < cs.len() && (cs[i + 1].is_ascii_uppercase() || ('α'..='ω').contains(&cs[i + 1]));
        if depth > 0 && c != ' ' && !keeps_next { out.push(c); out.push(' '); } else { out.push(c); }
        if c == ']' { depth -= 1; }
        i += 1;
    }
    Some(out)
}

fn word_pool() -> Vec<String> { ["ta.pa", "ˈpaː.ta", "a", "pat", "pa51.ta1234", "tat.ta", "ˌtaˈpat", "kat.pa.ta", "s", "ŋǃa"].iter().map(|s| s.to_string()).collect() }

pub fn run() -> i32 {
    let mut r = Report::new("C13");
    r.class_parts = Some(1);
    let thorough = r.thorough();
    r.rule = "respelling operators, applied one occurrence at a time and at all occurrences, to every rule of rulegen(3) (thorough: plus the frozen corpus of documented / test-suite / example-project rules) in which they apply: `>`/`=>`/`->`, `|`/`//`, `*`/`∅`, `...`/`..`/`…`, `⟨⟩`/`<>`, a space between all characters inside matrices, a trailing `;; text`, renaming of each alpha letter to six other letters, plus 11 templates with plain and inverted alphas renamed to every Greek letter α..ω and every Latin capital, renumbering of variables; all 177 feature spellings of the frozen synonym table in every matrix position (input, output, context, exception, IPA / group / % modifier, structure, set; +, - and α) in the rule lexer and in both alias lexers; word respellings `'`/`ˈ`, `,`/`ˌ`, `:`/`ː`, `;`/`ː.`, doubled segment / length mark, `^` / tie bar and the 20 input aliases; every grapheme of the IPA table respelled with the 19 character aliases and `^` at every position where they apply. Oracle: original and respelling give equal words, or errors of the same variant. Non-trivial = both Ok.".into();
    let words = word_pool();
    let mut tot = Acc::default();
    // ---- operators on generated rules
    // insertion rules without a context either are rejected or loop (C02 findings): nothing to compare there
    let mut rules: Vec<String> = rulegen::rulegen(3).into_iter().filter(|x| !(x.is_insertion() && x.ctx.is_empty() && x.special.is_none())).map(|x| x.text()).collect();
    // hand-written shapes the generator does not produce: empty environments, joined underlines, insertion / deletion / metathesis with both clauses
    for x in ["a > e / _", "a > e / ___", "a > e | _", "a > * / _", "t a > & / _", "a > e / _ | t_", "* > e / _# | t_", "a > * / _# | t_", "a, t > e, d / _, _#", "a > e / _,#"] { rules.push(x.to_string()); }
    if thorough { rules.extend(super::c02::corpus()); }
    par_fold(rules.len(), 32, Acc::default, |i, a| {
        let rule = &rules[i];
        let base = vec![rule.clone()];
        let mut alts: Vec<(&str, String)> = vec![];
        for (kind, from, tos) in [("arrow", " > ", vec![" => ", " -> "]), ("pipe", " | ", vec![" // "]), ("empty", "*", vec!["∅"]), ("ellipsis", "...", vec!["..", "…"]), ("langle", "⟨", vec!["<"]), ("rangle", "⟩", vec![">"])] {
            let n = occurrences(rule, from);
            for to in tos { for nth in (0..n).chain(if n > 1 { Some(usize::MAX) } else { None }) { if let Some(x) = respell(rule, from, to, nth) { alts.push((kind, x)); } } }
        }
        if rule.contains('⟨') { alts.push(("angle-both", rule.replace('⟨', "<").replace('⟩', ">"))); }
        if let Some(x) = space_out_matrices(rule) { alts.push(("matrix-spaces", x)); }
        alts.push(("comment", format!("{} ;; note", rule)));
        alts.push(("comment", format!("{};;[+x] > *", rule)));
        // alpha renaming
        for greek in ['α', 'β', 'γ'] { if rule.contains(greek) { for to in ['ω', 'δ', 'λ', 'A', 'Q', 'Z'] { if !rule.contains(to) { alts.push(("alpha-rename", rule.replace(greek, &to.to_string()))); } } } }
        // variable renumbering: `=1` and bare ` 1`
        if rule.contains("=1") { for to in ["0", "7", "10", "99"] { alts.push(("variable-renumber", renumber(rule, to))); } }
        for (kind, alt) in alts { cmp(kind, &base, &[alt], &words, &words, (&[], &[]), (&[], &[]), a); }
    }, |a| tot.merge(a));
    r.boxes.push(json!({"box": "operators on rules", "rules": rules.len(), "comparisons": tot.evals, "by_kind": tot.per_kind.clone()}));
    // ---- alpha letters: every Greek letter α..ω and every Latin capital, plain and inverted, in every matrix slot
    let templates = ["[+cons, -son, αvoice] > [-αvoice]", "[αvoice] > [tone:7] / _ [αvoice]", "[-αvoice] > [αvoice]", "C:[-αvoice] > [tone:7] / [αvoice] _", "V > [αhigh, -βback] / _ C V:[αhigh, βback]",
        "%:[αstress] > [tone:7] / _ %:[-αstress]", "a > e | _ [-αvoice] [αvoice]", "[-αvoice, -βcont] > [αvoice, βcont]", "{[αvoice], a} > [-αvoice] / _ #", "⟨C:[αvoice] V⟩ > [tone:7] / _ [-αvoice]", "t > [-αPLACE] / _ [αPLACE]"];
    let mut letters: Vec<char> = ('α'..='ω').collect(); letters.extend('A'..='Z');
    let awords: Vec<String> = ["ba.pa.za.sa", "ap.ta", "ab.da", "ˈta.ta", "taˈta", "pi.tu", "ad.ta", "at.da", "tka", "a"].iter().map(|s| s.to_string()).collect();
    let mut ta = Acc::default();
    for t in templates {
        let base = vec![t.to_string()];
        let Some(x) = run_outcome(&base, &awords, &[], &[]) else { continue };
        for to in &letters { for (greek, other) in [('α', 'β'), ('β', 'α')] {
            if !t.contains(greek) || *to == greek || (*to == other && t.contains(other)) { continue; }
            let alt = t.replace(greek, &to.to_string());
            cmp_with("alpha-letter", &x, &base, &[alt], &awords, &awords, (&[], &[]), (&[], &[]), &mut ta);
        } }
    }
    r.boxes.push(json!({"box": "alpha letters: 11 templates (plain and inverted uses, two alphas, nodes) x every Greek and Latin letter", "letters": letters.len(), "comparisons": ta.evals, "equal_ok": ta.equal_ok, "equal_err": ta.equal_err}));
    r.guard(ta.equal_ok > 2000, "alpha letters: more than 2000 equal Ok outcomes");
    tot.merge(ta);
    // ---- feature synonyms
    let syn: Value = serde_json::from_str(&std::fs::read_to_string(format!("{}/fixtures/feature_synonyms.json", crate::util::root())).expect("fixture feature_synonyms.json")).expect("json");
    let uni: Vec<String> = super::c04::segment_universe(false).into_iter().map(|x| x.0).step_by(if thorough { 1 } else { 3 }).collect();
    let multi: Vec<String> = ["ta.pa", "ˈpaː.ta", "kat.pa.ta", "an.ta", "ˌtaˈpaːːt5"].iter().map(|s| s.to_string()).collect();
    let mut jobs: Vec<(String, String, String)> = vec![]; // (kind, canonical, spelling)
    for (_, v) in syn.as_object().unwrap() { let sp: Vec<&str> = v["spellings"].as_array().unwrap().iter().map(|x| x.as_str().unwrap()).collect(); for s in &sp[1..] { jobs.push((v["kind"].as_str().unwrap().to_string(), sp[0].to_string(), s.to_string())); } }
    let mut ts = Acc::default();
    par_fold(jobs.len(), 1, Acc::default, |i, a| {
        let (kind, c, s) = &jobs[i];
        let t_rule: Vec<&str> = match kind.as_str() {
            "Feat" => vec!["[+F] > [tone:7]", "[-F] > [tone:7]", "[] > [+F]", "[] > [-F]", "a > i / [+F] _", "a > i | _ [-F]", "t:[-F] > [tone:7]", "C:[+F] > [tone:7]", "V:[-F] > [tone:7]", "⟨[+F] a⟩ > [tone:7]", "{[+F], a} > [tone:7]", "[αF] > [tone:7] / _ [αF]", "[-αF] > [αF]", "%:[+stress] > [tone:7] / _ [+F]"],
            "Node" => vec!["[αF] > [tone:7] / _ [αF]", "[+F] > [tone:7]", "[-F] > [tone:7]", "C > [-F]", "C:[+F] > [tone:7]", "[+cons] > [αF] / _ [+cons, αF]"],
            _ => vec!["V:[+F] > [tone:7]", "V:[-F] > [tone:7]", "V > [+F]", "V > [-F]", "%:[+F] > [tone:7]", "% > [-F]", "[αF] > [tone:7]", "a:[-F] > i / _ C:[+F]", "⟨C V⟩:[+F] > [tone:7]"],
        };
        let ws: Vec<String> = if kind == "Supr" { multi.clone() } else { uni.iter().cloned().chain(multi.iter().cloned()).collect() };
        let sub = |t: &str, name: &str| t.replace('F', name);
        // careful: templates contain `F` only as the placeholder
        for t in t_rule { cmp("feature-in-rule", &[sub(t, c)], &[sub(t, s)], &ws, &ws, (&[], &[]), (&[], &[]), a); }
        // alias lexers
        let t_from: Vec<&str> = match kind.as_str() { "Feat" => vec!["[+F] > q", "a:[-F] > q", "V:[+F] => +q"], "Node" => vec!["[+F] > q", "C:[-F] > q"], _ => vec!["V:[+F] > q", "a:[-F] > q"] };
        for t in t_from { cmp("feature-in-romaniser", &[], &[], &ws, &ws, (&[], &[sub(t, c)]), (&[], &[sub(t, s)]), a); }
        let t_into: Vec<&str> = match kind.as_str() { "Feat" => vec!["q > a:[+F]", "q > t:[-F]", "+q > [+F]"], "Node" => vec!["q > t:[-F]"], _ => vec!["q > a:[+F]", "+q > [+F]"] };
        let qw: Vec<String> = ["qta", "taq", "ta.q", "ˈtaq.pa"].iter().map(|s| s.to_string()).collect();
        for t in t_into { cmp("feature-in-deromaniser", &[], &[], &qw, &qw, (&[sub(t, c)], &[]), (&[sub(t, s)], &[]), a); }
    }, |a| ts.merge(a));
    r.boxes.push(json!({"box": "feature spellings", "spellings": jobs.len() + 38, "comparisons": ts.evals, "by_kind": ts.per_kind.clone()}));
    r.guard(jobs.len() == 177 - 38, "177 spellings of 38 features in the frozen table");
    // ---- every alpha letter in front of every spelling of every feature, node and suprasegmental, inverted and plain: a letter glued to an
    // abbreviation may itself spell another name (`-O` + `long`), but an alpha letter is an alpha letter
    let mut lj: Vec<(String, String)> = vec![]; // (kind, spelling)
    for (_, v) in syn.as_object().unwrap() { for sp in v["spellings"].as_array().unwrap() { lj.push((v["kind"].as_str().unwrap().to_string(), sp.as_str().unwrap().to_string())); } }
    let lwords: Vec<String> = ["ba.pa.za.sa", "ap.ta", "ab.da", "ˈta.ta", "taˈta", "pi.tu", "taː.ta", "ta.taː", "taːː.ta", "at.da"].iter().map(|s| s.to_string()).collect();
    let mut tl = Acc::default();
    par_fold(lj.len(), 1, Acc::default, |i, a| {
        let (kind, sp) = &lj[i];
        let templates: Vec<&str> = match kind.as_str() { "Feat" => vec!["[-XF] > [tone:7] / _ [XF]", "[XF, -son] > [-XF]"], "Node" => vec!["[-XF] > [tone:7] / _ [XF]"], _ => vec!["V:[-XF] > [tone:7] / _ C V:[XF]", "V > [-XF] / _ C V:[XF]"] };
        for t in templates {
            let mk = |l: char| t.replace("XF", &format!("{}{}", l, sp));
            let base = vec![mk('α')];
            let Some(x) = run_outcome(&base, &lwords, &[], &[]) else { continue };
            for to in &letters { if *to == 'α' { continue; } cmp_with("alpha-letter-x-spelling", &x, &base, &[mk(*to)], &lwords, &lwords, (&[], &[]), (&[], &[]), a); }
        }
    }, |a| tl.merge(a));
    r.boxes.push(json!({"box": "alpha letters x every spelling of every feature / node / suprasegmental (inverted and plain use)", "spellings": lj.len(), "letters": letters.len(), "comparisons": tl.evals, "equal_ok": tl.equal_ok, "equal_err": tl.equal_err}));
    r.guard(tl.equal_ok > 10_000, "alpha letters x spellings: more than 10k equal Ok outcomes");
    ts.merge(tl);
    // ---- the arrow spellings in alias lines (the alias lexer is a separate copy of the rule lexer): every line of a pool of romanisers and
    // deromanisers with `>`, `=>`, `->`, spaced and unspaced, against its `>` form (comments are a feature of rule lines, alias lines have none)
    let from_pool: [(&str, &str); 7] = [("a", "A"), ("ʃ", "sh"), ("V:[+long]", "+@{macron}"), ("$", "*"), ("a:[+stress]", "á"), ("t, d", "T, D"), ("[+nasal]", "N")];
    let into_pool: [(&str, &str); 6] = [("sh", "ʃ"), ("A", "a:[+long]"), ("+@{acute}", "[+stress]"), ("c, q", "k, k"), ("ng", "ŋ"), ("+h", "[+sg]")];
    let alias_words: Vec<String> = ["sha.ta", "Ata.sha", "ta\u{301}.ka", "ca.qa", "anga", "tha.da", "ˈpaː.ta", "ma.ʃa"].iter().map(|s| s.to_string()).collect();
    let arrows = [" > ", ">", " => ", "=>", " -> ", "->", "  ->  ", "\t=>\t"];
    let mut tar = Acc::default();
    for (is_into, pool) in [(false, &from_pool[..]), (true, &into_pool[..])] { for (l, rr) in pool {
        let mk = |ar: &str| -> String { format!("{}{}{}", l, ar, rr) };
        let base = vec![mk(" > ")];
        for ar in &arrows[1..] {
            let alt = vec![mk(ar)];
            if is_into { cmp("alias-arrow", &[], &[], &alias_words, &alias_words, (&base, &[]), (&alt, &[]), &mut tar); } else { cmp("alias-arrow", &[], &[], &alias_words, &alias_words, (&[], &base), (&[], &alt), &mut tar); }
        }
    } }
    r.boxes.push(json!({"box": "arrow spellings in alias lines (7 romanisers, 6 deromanisers x 7 respellings)", "comparisons": tar.evals, "equal_ok": tar.equal_ok, "equal_err": tar.equal_err}));
    r.guard(tar.equal_ok > 500, "alias arrows: more than 500 equal Ok outcomes");
    ts.merge(tar);
    // ---- word respellings
    let mut tw = Acc::default();
    let wrules: Vec<Vec<String>> = vec![vec![], vec!["a > e".into()], vec!["V:[+long] > [-long]".into(), "C > [+voice] / V_V".into()], vec!["% > [tone:5] / _#".into()], vec!["[+cons, -voice] > [+cont]".into()], vec!["n > ɲ / _i".into(), "t > t͡s / _a".into()]];
    let pairs: Vec<(&str, &str, &str)> = vec![
        ("stress", "ˈta.pa", "'ta.pa"), ("stress", "ˈma.ɲa", "'ma.ɲa"), ("secondary", "ˌɬa.ta", ",ɬa.ta"), ("length", "t͡saː", "t͡sa:"), ("length-break", "d͡ɮaː.ta", "d͡ɮa;ta"), ("stress", "ˈka.ni", "'ka.ni"), ("length", "taː.ni", "ta:.ni"), ("stress", "taˈpa", "ta'pa"), ("secondary", "ˌta.pa", ",ta.pa"), ("secondary", "ˈtaˌpa", "'ta,pa"), ("length", "taː.pa", "ta:.pa"), ("length", "taːː", "ta::"), ("length-break", "taː.pa", "ta;pa"),
        ("doubled", "taː", "taa"), ("doubled", "ãːn", "ããn"), ("doubled", "atʰːa", "atʰtʰa"), ("length", "ãːn", "ã:n"), ("length-break", "kʷaː.ta", "kʷa;ta"), ("doubled", "kʷːa", "kʷkʷa"), ("doubled", "tːa", "tta"), ("doubled", "taːːp", "taaap"), ("tie", "t͡sa", "t^sa"), ("tie", "a.d͡ʒa", "a.d^ʒa"), ("undertie", "t͡sa", "t͜sa"), ("undertie", "a.d͡ʒa", "a.d͜ʒa"),
        ("alias", "ɡa", "ga"), ("alias", "ʔa", "?a"), ("alias", "ŋǃa", "ŋ!a"), ("alias", "ə", "ǝ"), ("alias", "ɸa", "φa"), ("alias", "ʃa", "Sa"), ("alias", "ʒa", "Za"), ("alias", "ɕa", "Ca"), ("alias", "ɢa", "Ga"), ("alias", "ɴa", "Na"), ("alias", "ʙa", "Ba"), ("alias", "ʀa", "Ra"), ("alias", "χa", "Xa"), ("alias", "ʜa", "Ha"), ("alias", "pɐ", "pA"), ("alias", "pɛ", "pE"), ("alias", "pɪ", "pI"), ("alias", "pɔ", "pO"), ("alias", "pʊ", "pU"), ("alias", "pʏ", "pY"),
        ("alias", "ɡ͡ba", "g͡ba"), ("alias", "aɡ.ʃa", "ag.Sa"),
    ];
    for rl in &wrules { for (k, a, b) in &pairs { cmp(&format!("word-{}", k), rl, rl, &[a.to_string()], &[b.to_string()], (&[], &[]), (&[], &[]), &mut tw); } }
    // every grapheme of the IPA table that contains an aliasable character or a tie, at every position of that character
    // (segment-initial, after a tie, second element of a click, after a prenasalisation letter ...): the input aliases of the
    // manual (frozen here) and `^` for the tie, one occurrence at a time and all at once, also combined
    let input_aliases: [(char, char); 19] = [('ʃ', 'S'), ('ʒ', 'Z'), ('ɕ', 'C'), ('ɢ', 'G'), ('ɴ', 'N'), ('ʙ', 'B'), ('ʀ', 'R'), ('χ', 'X'), ('ʜ', 'H'), ('ɐ', 'A'), ('ɛ', 'E'), ('ɪ', 'I'), ('ɔ', 'O'), ('ʊ', 'U'), ('ʏ', 'Y'), ('ɸ', 'φ'), ('ɡ', 'g'), ('ʔ', '?'), ('ǃ', '!')];
    let mut table_pairs: Vec<(String, String)> = vec![];
    for (g, _) in asca::verif::cardinals() {
        let cs: Vec<char> = g.chars().collect();
        let mut alts: std::collections::BTreeSet<String> = Default::default();
        for (i, c) in cs.iter().enumerate() {
            let rep: Option<char> = if *c == '\u{361}' { Some('^') } else { input_aliases.iter().find(|x| x.0 == *c).map(|x| x.1) };
            if let Some(rc) = rep { let mut v = cs.clone(); v[i] = rc; alts.insert(v.iter().collect()); }
        }
        let all: String = cs.iter().map(|c| if *c == '\u{361}' { '^' } else { input_aliases.iter().find(|x| x.0 == *c).map(|x| x.1).unwrap_or(*c) }).collect();
        if all != g { alts.insert(all); }
        for a in alts { table_pairs.push((g.clone(), a)); }
    }
    let trules: Vec<Vec<String>> = vec![vec![], vec!["a > e".into()]];
    for rl in &trules { for (g, a) in &table_pairs { for (pre, post) in [("", "a"), ("a", ""), ("ta.", "a")] {
        cmp("word-table-alias", rl, rl, &[format!("{}{}{}", pre, g, post)], &[format!("{}{}{}", pre, a, post)], (&[], &[]), (&[], &[]), &mut tw);
    } } }
    r.boxes.push(json!({"box": "IPA-table graphemes respelled with the input aliases / `^` at every position", "pairs": table_pairs.len(), "frames": 3, "rule_lists": trules.len()}));
    r.guard(table_pairs.len() > 100, "more than 100 table graphemes contain an aliasable character or a tie");
    r.boxes.push(json!({"box": "word respellings", "pairs": pairs.len(), "rule_lists": wrules.len(), "comparisons": tw.evals, "by_kind": tw.per_kind.clone()}));
    let mut all = Acc::default(); all.merge(tot); all.merge(ts); all.merge(tw);
    r.evaluations = all.evals; r.transitions = all.evals * 2; r.validated = all.equal_ok + all.equal_err; r.nontrivial = all.equal_ok; r.states = all.outs;
    r.outcome("equal_ok", all.equal_ok); r.outcome("equal_error_variant", all.equal_err); r.outcome("skipped_crash (C02)", all.skipped_crash);
    r.guard(all.equal_ok > 100_000, "more than 100k respellings compared with Ok on both sides");
    r.sample(json!({"rule": "a > * / _#", "respelling": "a > ∅ / _#"})); r.sample(json!({"feature": "delayedrelease", "spelling": "d.r.", "template": "[] > [+F]"})); r.sample(json!({"word": "taː.pa", "respelling": "ta;pa"}));
    for v in all.viols { r.viol(v); }
    r.finish()
}

pub fn replay(case: &Value) -> Result<String, String> {
    let v = |k: &str| -> Vec<String> { case[k].as_array().map(|a| a.iter().map(|x| x.as_str().unwrap_or("").to_string()).collect()).unwrap_or_default() };
    let mut a = Acc::default();
    cmp(case["kind"].as_str().unwrap_or(""), &v("a_rules"), &v("b_rules"), &[case["a_word"].as_str().unwrap_or("").to_string()], &[case["b_word"].as_str().unwrap_or("").to_string()], (&v("a_into"), &v("a_from")), (&v("b_into"), &v("b_from")), &mut a);
    match a.viols.first() { Some(x) => Err(x.desc.clone()), None => Ok("respelling behaves identically".into()) }
}
