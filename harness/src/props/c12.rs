//! C12 — documented shorthands mean exactly their expansions.
use crate::util::*;
use asca::verif as av;
use serde_json::{json, Value};

/// group letter -> the matrix doc.md §Groupings gives for it (frozen specification data)
pub const GROUPS: [(&str, &str); 9] = [
    ("C", "[-syll]"), ("O", "[+cons, -son, -syll]"), ("S", "[+cons, +son, -syll]"), ("P", "[+cons, -son, -syll, -delrel, -cont]"), ("F", "[+cons, -son, -syll, -approx, +cont]"),
    ("L", "[+cons, +son, -syll, +approx]"), ("N", "[+cons, +son, -syll, -approx, +nasal]"), ("G", "[-cons, +son, -syll]"), ("V", "[-cons, +son, +syll]"),
];

#[derive(Default)]
struct Acc { evals: u64, same_changed: u64, same_unchanged: u64, both_err: u64, rejected: u64, viols: Vec<Viol>, outs: std::collections::BTreeSet<u64> }
impl Acc { fn merge(&mut self, o: Acc) { self.evals += o.evals; self.same_changed += o.same_changed; self.same_unchanged += o.same_unchanged; self.both_err += o.both_err; self.rejected += o.rejected; self.viols.extend(o.viols); self.outs.extend(o.outs); } }

fn compile(lines: &[String]) -> Option<Result<av::Compiled, String>> {
    let refs: Vec<&str> = lines.iter().map(|s| s.as_str()).collect();
    match guarded(1_000_000, || av::compile(&[group(&refs)])) { Out::Ok(Ok(c)) => Some(Ok(c)), Out::Ok(Err(e)) => Some(Err(format!("{:?}", e))), _ => None }
}

/// shorthand vs expansion (each a list of rule lines forming one group) on every word
fn compare(kind: &str, short: &[String], long: &[String], ws: &[CW], a: &mut Acc) {
    let (Some(cs), Some(cl)) = (compile(short), compile(long)) else { return };
    let key = |w: &str| format!("{}|{}|=|{}|{}", kind, short.join(" ;; "), long.join(" ;; "), w);
    let (cs, cl) = match (cs, cl) {
        (Ok(x), Ok(y)) => (x, y),
        (Err(_), Err(_)) => { a.rejected += 1; return; }
        (x, y) => { a.viols.push(Viol { key: key("<compile>"), desc: format!("[{}] {} but its expansion [{}] {}", short.join(" ;; "), if x.is_ok() { "compiles" } else { "is rejected" }, long.join(" ;; "), if y.is_ok() { "compiles" } else { "is rejected" }), case: json!({"kind": kind, "short": short, "long": long}) }); return; }
    };
    let b = budget_for(14, short.iter().chain(long.iter()).map(|s| s.chars().count()).sum());
    for w in ws {
        // `A B > &` vs variables: a long segment is a run of copies and the manual leaves open which copy moves; only words without long segments are claimed
        if kind == "metathesis-vs-variables" && has_adjacent_equal(w) { continue; }
        a.evals += 1;
        let x = guarded(b, || av::apply_group(&cs, 0, word_of(w)).map(|x| cw_of(&x)).map_err(|_| ()));
        let y = guarded(b, || av::apply_group(&cl, 0, word_of(w)).map(|x| cw_of(&x)).map_err(|_| ()));
        match (x, y) {
            (Out::Ok(Ok(p)), Out::Ok(Ok(q))) => if p == q { if p == *w { a.same_unchanged += 1 } else { a.same_changed += 1; a.outs.insert(hash64(&p)); } } else {
                a.viols.push(Viol { key: key(&show_cw(w)), desc: format!("on /{}/: shorthand [{}] gives /{}/, expansion [{}] gives /{}/", show_cw(w), short.join(" ;; "), show_cw(&p), long.join(" ;; "), show_cw(&q)), case: json!({"kind": kind, "short": short, "long": long, "word": cw_json(w)}) });
            },
            (Out::Ok(Err(_)), Out::Ok(Err(_))) => a.both_err += 1,
            (Out::Ok(p), Out::Ok(q)) => a.viols.push(Viol { key: key(&show_cw(w)), desc: format!("on /{}/: shorthand [{}] gives {:?}, expansion [{}] gives {:?}", show_cw(w), short.join(" ;; "), p.map(|x| show_cw(&x)), long.join(" ;; "), q.map(|x| show_cw(&x))), case: json!({"kind": kind, "short": short, "long": long, "word": cw_json(w)}) }),
            _ => {} // crashes are C02's
        }
    }
}

fn words(max_len: usize) -> Vec<CW> {
    let inv: Vec<SegBits> = ["p", "t", "a", "i"].iter().map(|t| seg(t)).collect();
    word_space(&inv, max_len)
}

pub fn run() -> i32 {
    let mut r = Report::new("C12");
    let thorough = r.thorough();
    r.rule = "(a) condensed rules: every combination of two inputs, one or two outputs and zero, one or two environments from small pools vs the same sub-rules on consecutive lines; (b) `_,X` for every X of <= 2 (3) environment items vs `X_ , _mirror(X)`; (c) every group letter vs the manual's matrix, bare and with a modifier (also one that repeats or flips each of the group's own features), as input, in a context, in a structure and in a romaniser, on every segment of the universe; (d) optionals `(X,M:N)`, `(X)`, `(X,N)`, `(X,0)` for X of 1-2 capture-free items, 0<=M<=N<=3, before and after `_`, followed by 0-1 items (and by two items, on words of up to 5 segments over {p,t,a}), as context and as exception, vs the environment set of the explicit repetitions; (e) `A B > &` vs `A=1 B=2 > 2 1` for matrices/groups; x every word of W(I4,L). Oracle: structural equality of the two runs, or both Err. Non-trivial = equal and the word changed.".into();
    let ws = words(if thorough { 5 } else { 4 });
    let s = |x: &str| x.to_string();
    let mut jobs: Vec<(&'static str, Vec<String>, Vec<String>)> = vec![];
    // (a) condensed
    let ins = ["a", "t", "C", "V", "[+cons]", "{p,a}"]; let outs = ["i", "t", "[+voice]", "*", "[+long]"]; let envs = ["", "p _", "_ #", "V _ C", "_ $"];
    for i1 in ins { for i2 in ins { for o1 in outs { for o2 in std::iter::once("").chain(outs) { for e1 in envs { for e2 in std::iter::once("-").chain(envs) {
        if e2 != "-" && (e1.is_empty() || e2.is_empty()) { continue; } // `a > e / _ , p_`: an empty environment cannot be written in a list
        let o_short = if o2.is_empty() { s(o1) } else { format!("{}, {}", o1, o2) };
        let e_short = if e2 == "-" { if e1.is_empty() { s("") } else { format!(" / {}", e1) } } else { format!(" / {}, {}", e1, e2) };
        let short = format!("{}, {} > {}{}", i1, i2, o_short, e_short);
        let ee = |e: &str| if e.is_empty() { s("") } else { format!(" / {}", e) };
        let l1 = format!("{} > {}{}", i1, o1, ee(e1));
        let l2 = format!("{} > {}{}", i2, if o2.is_empty() { o1 } else { o2 }, ee(if e2 == "-" { e1 } else { e2 }));
        jobs.push(("condensed", vec![short], vec![l1, l2]));
    } } } } } }
    // (b) special environment
    let items = ["p", "t", "a", "C", "V", "[+hi]", "$", "{p,a}", "(C)", "%"];
    let mut xs: Vec<Vec<&str>> = vec![];
    for a in items { xs.push(vec![a]); for b in items { xs.push(vec![a, b]); if thorough { for c in items { xs.push(vec![a, b, c]); } } } }
    for x in &mut xs.clone() { let mut y = x.clone(); y.push("#"); xs.push(y); }
    for io in ["a > i", "C > [+voice]", "V > *", "V > [+long]", "t a > &"] { for x in &xs {
        let mut rev = x.clone(); rev.reverse();
        jobs.push(("special-env", vec![format!("{} / _,{}", io, x.join(" "))], vec![format!("{} / {} _, _ {}", io, x.join(" "), rev.join(" "))]));
    } }
    // ... and with an element that has an inside of its own: mirroring X turns `(p t)` into `(t p)`
    let nested: [(&str, &str); 6] = [("(p t)", "(t p)"), ("(p a,1:2)", "(a p,1:2)"), ("(C V,1:1)", "(V C,1:1)"), ("(t a $)", "($ a t)"), ("(p t,0:2)", "(t p,0:2)"), ("(a (p t))", "((t p) a)")];
    for io in ["a > i", "C > [+voice]", "V > *"] { for (x, xm) in nested { for extra in ["", "a", "t", "#"] {
        let (lhs, l_before, l_after) = match extra { "" => (x.to_string(), x.to_string(), xm.to_string()), "#" => (format!("{} #", x), format!("{} #", x), format!("# {}", xm)), e => (format!("{} {}", x, e), format!("{} {}", x, e), format!("{} {}", e, xm)) };
        jobs.push(("special-env", vec![format!("{} / _,{}", io, lhs)], vec![format!("{} / {} _, _ {}", io, l_before, l_after)]));
    } } }
    // (d) optionals
    let xopts: Vec<Vec<&str>> = vec![vec!["C"], vec!["V"], vec!["t"], vec!["[]"], vec!["C", "V"], vec!["p", "a"], vec!["$"], vec!["%"],
        // an alpha inside the optional: every repetition of one attempt shares the binding, as the written-out repetitions do
        vec!["[αvoice]"], vec!["[αhi]"], vec!["[αvoice]", "[βhi]"]];
    let tails = ["", "t", "a", "#", "$", "V"];
    let maxl = if thorough { 5 } else { 4 };
    for x in &xopts { for m in 0..=3usize { for n in m..=3usize { if n == 0 { continue; }
        for tail in tails { for after in [true, false] { for exc in [false, true] {
            let mut specs = vec![(format!("({},{}:{})", x.join(" "), m, n), m, n)];
            if m == 0 { specs.push((format!("({},{})", x.join(" "), n), 0, n)); if n == 1 { specs.push((format!("({})", x.join(" ")), 0, 1)); } }
            for (opt, mm, nn) in specs {
                let reps: Vec<String> = (mm..=nn).map(|k| std::iter::repeat(x.join(" ")).take(k).collect::<Vec<_>>().join(" ")).collect();
                let mk = |mid: &str| -> String { if after { format!("_ {} {}", mid, tail) } else { let t = if tail == "#" { s("#") } else { s(tail) }; format!("{} {} _", t, mid) } };
                let members: Vec<String> = reps.iter().map(|rp| mk(rp).split_whitespace().collect::<Vec<_>>().join(" ")).collect();
                if members.iter().any(|e| e == "_") { continue; } // an empty environment cannot be a set member
                let sep = if exc { "|" } else { "/" };
                let short = format!("a > i {} {}", sep, mk(&opt).split_whitespace().collect::<Vec<_>>().join(" "));
                let long = if members.len() == 1 { format!("a > i {} {}", sep, members[0]) } else { format!("a > i {} :{{ {} }}:", sep, members.join(", ")) };
                jobs.push(("optional", vec![short], vec![long]));
            }
        } } }
    } } }
    // optionals followed by TWO items (a continuation that can fail half-way, after which the next repetition must start from
    // where the previous repetition ended), on words of up to 5 segments over {p,t,a}
    let tails2: [(&str, &str); 6] = [("t #", "# t"), ("t a", "a t"), ("a t", "t a"), ("C #", "# C"), ("t p", "p t"), ("C V", "V C")];
    for x in [vec!["C"], vec!["t"], vec!["[]"], vec!["C", "V"]] { for m in 0..=2usize { for n in m..=3usize { if n == 0 { continue; }
        for (ta, tb) in tails2 { for after in [true, false] { for exc in [false, true] {
            let opt = format!("({},{}:{})", x.join(" "), m, n);
            let reps: Vec<String> = (m..=n).map(|k| std::iter::repeat(x.join(" ")).take(k).collect::<Vec<_>>().join(" ")).collect();
            let mk = |mid: &str| -> String { if after { format!("_ {} {}", mid, ta) } else { format!("{} {} _", tb, mid) } };
            let members: Vec<String> = reps.iter().map(|rp| mk(rp).split_whitespace().collect::<Vec<_>>().join(" ")).collect();
            let sep = if exc { "|" } else { "/" };
            let short = format!("a > i {} {}", sep, mk(&opt).split_whitespace().collect::<Vec<_>>().join(" "));
            let long = if members.len() == 1 { format!("a > i {} {}", sep, members[0]) } else { format!("a > i {} :{{ {} }}:", sep, members.join(", ")) };
            jobs.push(("optional-tail2", vec![short], vec![long]));
        } } }
    } } }
    // `(X,0)` = zero or more: explicit repetitions up to the longest word
    for x in &xopts { for tail in tails { for after in [true, false] {
        let reps: Vec<String> = (0..=maxl).map(|k| std::iter::repeat(x.join(" ")).take(k).collect::<Vec<_>>().join(" ")).collect();
        let mk = |mid: &str| -> String { if after { format!("_ {} {}", mid, tail) } else { format!("{} {} _", tail, mid) } };
        let members: Vec<String> = reps.iter().map(|rp| mk(rp).split_whitespace().collect::<Vec<_>>().join(" ")).collect();
        if members.iter().any(|e| e == "_") { continue; }
        jobs.push(("optional-zero-or-more", vec![format!("a > i / {}", mk(&format!("({},0)", x.join(" "))).split_whitespace().collect::<Vec<_>>().join(" "))], vec![format!("a > i / :{{ {} }}:", members.join(", "))]));
    } } }
    // (e) metathesis vs variables
    let ab = ["C", "V", "[+cons]", "[+hi]", "[]", "[-voice]", "O", "[+syll]"];
    for a in ab { for b in ab { for e in ["", " / _ #", " / # _", " / V _", " | _ C"] {
        jobs.push(("metathesis-vs-variables", vec![format!("{} {} > &{}", a, b, e)], vec![format!("{}=1 {}=2 > 2 1{}", a, b, e)]));
    } } }
    let ws5: Vec<CW> = { let inv: Vec<SegBits> = ["p", "t", "a"].iter().map(|t| seg(t)).collect(); word_space(&inv, 5) };
    let mut per: std::collections::BTreeMap<&str, Acc> = Default::default();
    let mut parts: Vec<(usize, Acc)> = vec![];
    par_fold(jobs.len(), 8, Vec::new, |i, acc: &mut Vec<(usize, Acc)>| { let mut a = Acc::default(); compare(jobs[i].0, &jobs[i].1, &jobs[i].2, if jobs[i].0 == "optional-tail2" { &ws5 } else { &ws }, &mut a); acc.push((i, a)); }, |a| parts.extend(a));
    for (i, a) in parts { per.entry(jobs[i].0).or_default().merge(a); }
    // (c) group letters on the segment universe (one- and two-segment words)
    let uni = super::c04::segment_universe(thorough);
    let uw: Vec<CW> = uni.iter().map(|(_, b)| vec![CSyl { segs: vec![*b], stress: 0, tone: 0 }]).collect();
    let a_seg = seg("a");
    let uw2: Vec<CW> = uni.iter().flat_map(|(_, b)| [vec![CSyl { segs: vec![*b, a_seg], stress: 0, tone: 0 }], vec![CSyl { segs: vec![*b, *b, a_seg], stress: 1, tone: 0 }]]).collect();
    let mut gc = Acc::default();
    for (g, m) in GROUPS {
        let inner = &m[1..m.len() - 1];
        compare("group", &[format!("{} > [tone:7]", g)], &[format!("{} > [tone:7]", m)], &uw, &mut gc);
        compare("group+mod", &[format!("{}:[+long] > [tone:7]", g)], &[format!("[{}, +long] > [tone:7]", inner)], &uw2, &mut gc);
        compare("group+mod", &[format!("{}:[+voice, -stress] > [tone:7]", g)], &[format!("[{}, +voice, -stress] > [tone:7]", inner)], &uw2, &mut gc);
        // a modifier on one of the group's own features overrides it (as a later entry of a matrix overrides an earlier one)
        for own in inner.split(", ") {
            let flipped = if let Some(x) = own.strip_prefix('+') { format!("-{}", x) } else { format!("+{}", &own[1..]) };
            compare("group+mod", &[format!("{}:[{}] > [tone:7]", g, flipped)], &[format!("[{}, {}] > [tone:7]", inner, flipped)], &uw, &mut gc);
            compare("group+mod", &[format!("{}:[{}] > [tone:7]", g, own)], &[format!("[{}, {}] > [tone:7]", inner, own)], &uw, &mut gc);
            compare("group-in-context", &[format!("a > i / {}:[{}] _", g, flipped)], &[format!("a > i / [{}, {}] _", inner, flipped)], &uw2, &mut gc);
        }
        compare("group-in-context", &[format!("a > i / {} _", g)], &[format!("a > i / {} _", m)], &uw2, &mut gc);
        compare("group-in-exception", &[format!("a > i | {}:[+long] _", g)], &[format!("a > i | [{}, +long] _", inner)], &uw2, &mut gc);
        compare("group-in-structure", &[format!("⟨{} a⟩ > [tone:7]", g)], &[format!("⟨{} a⟩ > [tone:7]", m)], &uw2, &mut gc);
        compare("group-in-set", &[format!("{{{}, a}} > [tone:7]", g)], &[format!("{{{}, a}} > [tone:7]", m)], &uw, &mut gc);
        // alias lexer: romaniser `G > q` vs `M > q`
        for (_, b) in uni.iter() {
            let w = av::render_word(&word_of(&vec![CSyl { segs: vec![*b], stress: 0, tone: 0 }]), None);
            if w.contains('\u{FFFD}') { continue; }
            gc.evals += 1;
            let x = guarded(500_000, || asca::run(&[], &[w.clone()], &[], &[format!("{} > q", g)]).map_err(|_| ()));
            let y = guarded(500_000, || asca::run(&[], &[w.clone()], &[], &[format!("{} > q", m)]).map_err(|_| ()));
            if let (Out::Ok(p), Out::Ok(q)) = (x, y) { if p == q { gc.same_changed += 1; } else { gc.viols.push(Viol { key: format!("group-in-romaniser|{}|{}", g, w), desc: format!("romaniser `{} > q` on `{}` gives {:?}, `{} > q` gives {:?}", g, w, p, m, q), case: json!({"kind": "romaniser", "g": g, "m": m, "word": w}) }); } }
        }
    }
    per.insert("group-letters", gc);
    for (k, a) in &per {
        r.boxes.push(json!({"box": k, "comparisons": a.evals, "equal_and_changed": a.same_changed, "equal_unchanged": a.same_unchanged, "both_err": a.both_err, "both_rejected_by_parser": a.rejected, "failures": a.viols.len()}));
        r.guard(a.same_changed > 100, &format!("{}: more than 100 comparisons where the word changed", k));
    }
    r.boxes.push(json!({"rule_pairs": jobs.len(), "words": ws.len(), "segments": uni.len()}));
    for (_, a) in per { r.evaluations += a.evals; r.nontrivial += a.same_changed; r.validated += a.same_changed + a.same_unchanged + a.both_err; r.states.extend(a.outs); for v in a.viols { r.viol(v); } }
    r.transitions = r.evaluations * 2;
    r.sample(json!({"short": jobs[100].1, "long": jobs[100].2})); r.sample(json!({"short": jobs[jobs.len() - 300].1, "long": jobs[jobs.len() - 300].2}));
    r.finish()
}

pub fn replay(case: &Value) -> Result<String, String> {
    if case["kind"].as_str() == Some("romaniser") {
        let w = case["word"].as_str().unwrap_or("").to_string();
        let x = asca::run(&[], &[w.clone()], &[], &[format!("{} > q", case["g"].as_str().unwrap_or(""))]).map_err(|e| format!("{:?}", e));
        let y = asca::run(&[], &[w], &[], &[format!("{} > q", case["m"].as_str().unwrap_or(""))]).map_err(|e| format!("{:?}", e));
        return if x == y { Ok("equal".into()) } else { Err(format!("{:?} vs {:?}", x, y)) };
    }
    let short: Vec<String> = case["short"].as_array().ok_or("short")?.iter().map(|x| x.as_str().unwrap_or("").to_string()).collect();
    let long: Vec<String> = case["long"].as_array().ok_or("long")?.iter().map(|x| x.as_str().unwrap_or("").to_string()).collect();
    let ws: Vec<CW> = match cw_from_json(&case["word"]) { Some(w) => vec![w], None => vec![] };
    let mut a = Acc::default();
    compare(case["kind"].as_str().unwrap_or(""), &short, &long, &ws, &mut a);
    match a.viols.first() { Some(v) => Err(v.desc.clone()), None => Ok("shorthand == expansion".into()) }
}
