//! C04 — a matrix matches and changes exactly the named features; alphas carry values.
use crate::model::{self, FEATS, PLACE_NODES};
use crate::util::*;
use asca::verif as av;
use serde_json::{json, Value};

#[derive(Clone, Debug)]
enum Op {
    Set(usize, bool),       // [] > [±F]
    NodeAdd(usize),         // [] > [+lab]..
    NodeDel(usize),         // [] > [-lab]..
    PlaceDel,               // [] > [-place]
    ErrOut(String),         // [] > [+place] / [±root|manner|laryngeal] must be an error
    Probe(usize, bool),     // [±F] > [tone:7]
    ProbeNode(usize, bool), // [±lab] > [tone:7]
    ProbePlace(bool),
    Alpha(usize, usize, bool), // [αF] > [αG] / [-αG]
}

fn rule_text(op: &Op) -> String {
    let pm = |b: bool| if b { "+" } else { "-" };
    match op {
        Op::Set(f, v) => format!("[] > [{}{}]", pm(*v), FEATS[*f].0),
        Op::NodeAdd(n) => format!("[] > [+{}]", PLACE_NODES[*n]),
        Op::NodeDel(n) => format!("[] > [-{}]", PLACE_NODES[*n]),
        Op::PlaceDel => "[] > [-place]".into(),
        Op::ErrOut(s) => format!("[] > [{}]", s),
        Op::Probe(f, v) => format!("[{}{}] > [tone:7]", pm(*v), FEATS[*f].0),
        Op::ProbeNode(n, v) => format!("[{}{}] > [tone:7]", pm(*v), PLACE_NODES[*n]),
        Op::ProbePlace(v) => format!("[{}place] > [tone:7]", pm(*v)),
        Op::Alpha(f, g, inv) => format!("[α{}] > [{}α{}]", FEATS[*f].0, if *inv { "-" } else { "" }, FEATS[*g].0),
    }
}

/// model prediction: Ok(Some(word)) / Ok(None) = must be Err
fn predict(op: &Op, b: SegBits) -> Option<(SegBits, u16)> {
    match op {
        Op::Set(f, v) => Some((model::set_feat(b, *f, *v), 0)),
        Op::NodeAdd(n) => Some((model::add_node(b, *n), 0)),
        Op::NodeDel(n) => Some((model::del_node(b, *n), 0)),
        Op::PlaceDel => Some(((b.0, b.1, b.2, None), 0)),
        Op::ErrOut(_) => None,
        Op::Probe(f, v) => Some((b, if model::feat(b, *f) == Some(*v) { 7 } else { 0 })),
        Op::ProbeNode(n, v) => Some((b, if model::sub(b.3, *n).is_some() == *v { 7 } else { 0 })),
        Op::ProbePlace(v) => Some((b, if b.3.is_some() == *v { 7 } else { 0 })),
        Op::Alpha(f, g, inv) => match model::feat(b, *f) {
            None => Some((b, 0)),
            Some(val) => Some((model::set_feat(b, *g, val ^ *inv), 0)),
        },
    }
}

fn all_ops() -> Vec<Op> {
    let mut ops = vec![];
    for f in 0..26 { for v in [true, false] { ops.push(Op::Set(f, v)); ops.push(Op::Probe(f, v)); } }
    for n in 0..4 { ops.push(Op::NodeAdd(n)); ops.push(Op::NodeDel(n)); ops.push(Op::ProbeNode(n, true)); ops.push(Op::ProbeNode(n, false)); }
    ops.push(Op::PlaceDel); ops.push(Op::ProbePlace(true)); ops.push(Op::ProbePlace(false));
    for s in ["+place", "+root", "-root", "+manner", "-manner", "+laryngeal", "-laryngeal"] { ops.push(Op::ErrOut(s.into())); }
    for f in 0..26 { for g in 0..26 { for inv in [false, true] { ops.push(Op::Alpha(f, g, inv)); } } }
    ops
}

fn eval(op: &Op, compiled: &av::Compiled, b: SegBits) -> Result<bool, String> {
    let w: CW = vec![CSyl { segs: vec![b], stress: 0, tone: 0 }];
    let got = guarded(2_000_000, || av::apply_group(compiled, 0, word_of(&w)).map(|w| cw_of(&w)));
    let want = predict(op, b);
    match (got, want) {
        (Out::Ok(Ok(g)), Some((eb, et))) => {
            let e: CW = vec![CSyl { segs: vec![eb], stress: 0, tone: et }];
            if g == e { Ok(eb != b || et != 0) } else { Err(format!("model {:?} tone {}, implementation {:?}", eb, et, g)) }
        }
        (Out::Ok(Err(_)), None) => Ok(true),
        (Out::Ok(Ok(g)), None) => Err(format!("model: must be an error; implementation returned {:?}", g)),
        (Out::Ok(Err(e)), Some(_)) => Err(format!("model: Ok; implementation returned error {:?}", e)),
        (o, _) => Err(o.crash_desc().unwrap()),
    }
}

pub fn segment_universe(thorough: bool) -> Vec<(String, SegBits)> {
    let mut out: Vec<(String, SegBits)> = av::cardinals().into_iter().map(|(g, s)| (g, bits(&s))).collect();
    if thorough {
        let dias = av::diacritics();
        let bases: Vec<String> = out.iter().map(|x| x.0.clone()).collect();
        let mut seen: std::collections::BTreeSet<SegBits> = out.iter().map(|x| x.1).collect();
        for b in &bases {
            for d in &dias {
                let t = format!("{}{}", b, d);
                if let Out::Ok(Ok(w)) = guarded(1_000_000, || av::parse_word(&t, None)) {
                    if w.syllables.len() == 1 && w.syllables[0].segments.len() == 1 {
                        let sb = bits(&w.syllables[0].segments[0]);
                        if seen.insert(sb) { out.push((t, sb)); }
                    }
                }
            }
        }
    }
    out
}

pub fn run() -> i32 {
    let mut r = Report::new("C04");
    let segs = segment_universe(r.thorough());
    let ops = all_ops();
    r.rule = format!("one-segment words over {} segments ({}) x {} rules: `[] > [±F]` (52), `[±F] > [tone:7]` probes (52), `[±node]` set/probe for lab/cor/dor/phr/place (19), 7 outputs that must be errors, `[αF] > [αG]` and `[αF] > [-αG]` for all 26x26 pairs (1352); each result compared structurally with a bit-level reference model; plus `[αF, ±G] > [-αF]` for 9x8x2 feature pairs on every word of <= 3 segments over p,b,t,a,m without long segments (the alpha must be bound afresh at every position); plus, for every feature, `t > [tone:7] / [±αF] _ [±αF]`, `[±αF] > [tone:7] / _ t [±αF]` the exception form, and the forms in which the context (or the input) binds the alpha and the exception uses it, on /x t y/ for x, y over ~35 segments incl. ones lacking each place sub-node (an undefined feature matches neither α nor -α). Non-trivial = the model predicts a change or a firing probe.", segs.len(), if r.thorough() { "365 bases + every distinct base+one-diacritic bundle the parser accepts" } else { "the 365 base phones" }, ops.len());
    r.assumptions.push("reference model: harness/src/model.rs, written from the Segment/Place rustdoc and doc.md §Distinctive Features".into());
    struct Acc { evals: u64, nontrivial: u64, viols: Vec<Viol>, states: std::collections::BTreeSet<u64>, fired: u64 }
    let mut tot = Acc { evals: 0, nontrivial: 0, viols: vec![], states: Default::default(), fired: 0 };
    par_fold(ops.len(), 8, || Acc { evals: 0, nontrivial: 0, viols: vec![], states: Default::default(), fired: 0 }, |i, a| {
        let op = &ops[i];
        let text = rule_text(op);
        let compiled = match guarded(5_000_000, || av::compile(&[group(&[&text])])) {
            Out::Ok(Ok(c)) => c,
            Out::Ok(Err(e)) => {
                // an output that must be an error may also be rejected at parse time
                if matches!(op, Op::ErrOut(_)) { a.evals += segs.len() as u64; return; }
                a.viols.push(Viol { key: format!("compile|{}", text), desc: format!("rule `{}` does not compile: {:?}", text, e), case: json!({"rule": text}) });
                return;
            }
            o => { a.viols.push(Viol { key: format!("compile-crash|{}", text), desc: o.crash_desc().unwrap(), case: json!({"rule": text}) }); return; }
        };
        for (g, b) in &segs {
            a.evals += 1;
            match eval(op, &compiled, *b) {
                Ok(nt) => { if nt { a.nontrivial += 1; } a.states.insert(hash64(&(predict(op, *b), 1))); }
                Err(d) => a.viols.push(Viol { key: format!("{}|{}", text, g), desc: format!("`{}` on /{}/: {}", text, g, d), case: json!({"rule": text, "op": format!("{:?}", op), "seg": [b.0, b.1, b.2, b.3], "grapheme": g}) }),
            }
        }
    }, |a| { tot.evals += a.evals; tot.nontrivial += a.nontrivial; tot.viols.extend(a.viols); tot.states.extend(a.states); tot.fired += a.fired; });
    // ---- box 2: alphas in multi-condition matrices on multi-segment words: `[αF, vG] > [-αF]` applies to every
    // segment that has G = v and a defined F, independently of its neighbours (the alpha is per application)
    let inv: Vec<SegBits> = ["p", "b", "t", "a", "m"].iter().map(|t| seg(t)).collect();
    let words: Vec<CW> = word_space(&inv, 3).into_iter().filter(|w| !has_adjacent_equal(w)).collect();
    let fsub: Vec<usize> = vec![0, 1, 2, 3, 6, 11, 15, 16, 20]; // cons son syll cont nasal voice round ant high
    // ctx: 0 none; 1..4 an after-side context / exception (read from the not yet rewritten part of the word, so each position is judged on the input
    // word): a candidate that the environment rejects must leave nothing behind for the candidate right after it
    let mut pairs: Vec<(usize, usize, bool, u8)> = vec![];
    for f in &fsub { for g in &fsub { if f != g { for v in [true, false] { for ctx in 0..5u8 { pairs.push((*f, *g, v, ctx)); } } } } }
    let mut t2 = Acc { evals: 0, nontrivial: 0, viols: vec![], states: Default::default(), fired: 0 };
    par_fold(pairs.len(), 2, || Acc { evals: 0, nontrivial: 0, viols: vec![], states: Default::default(), fired: 0 }, |i, a| {
        let (f, g, v, ctx) = pairs[i];
        let text = format!("[α{}, {}{}] > [-α{}]{}", FEATS[f].0, if v { "+" } else { "-" }, FEATS[g].0, FEATS[f].0, [" ", " / _ a", " | _ a", " / _ #", " | _ C"][ctx as usize]);
        let a_seg = seg("a");
        // is the environment satisfied for the segment followed by `next` (None = end of word)?
        let env_ok = |next: Option<SegBits>| -> bool { match ctx { 0 => true, 1 => next == Some(a_seg), 2 => next != Some(a_seg), 3 => next.is_none(), _ => !next.map(|n| model::feat(n, 2) == Some(false)).unwrap_or(false) } };
        let Out::Ok(Ok(compiled)) = guarded(5_000_000, || av::compile(&[group(&[&text])])) else { a.viols.push(Viol { key: format!("compile|{}", text), desc: format!("`{}` does not compile", text), case: json!({"rule": text}) }); return; };
        for w in &words {
            let mut e = w.clone();
            let flat: Vec<SegBits> = w.iter().flat_map(|sy| sy.segs.iter().copied()).collect();
            let mut k = 0;
            for sy in e.iter_mut() { for b in sy.segs.iter_mut() { let next = flat.get(k + 1).copied(); k += 1; if model::feat(*b, g) == Some(v) && env_ok(next) { if let Some(x) = model::feat(*b, f) { *b = model::set_feat(*b, f, !x); } } } }
            if has_adjacent_equal(&e) { continue; }
            a.evals += 1;
            match guarded(200_000, || av::apply_group(&compiled, 0, word_of(w)).map(|x| cw_of(&x))) {
                Out::Ok(Ok(got)) if got == e => { if e != *w { a.nontrivial += 1; } a.states.insert(hash64(&got)); }
                Out::Ok(Ok(got)) => a.viols.push(Viol { key: format!("{}|{}", text, show_cw(w)), desc: format!("`{}` on /{}/: every segment with {}{} flips {}: model /{}/, implementation /{}/", text, show_cw(w), if v { "+" } else { "-" }, FEATS[g].0, FEATS[f].0, show_cw(&e), show_cw(&got)), case: json!({"rule2": text, "word": cw_json(w), "expected": cw_json(&e)}) }),
                Out::Ok(Err(er)) => a.viols.push(Viol { key: format!("{}|{}", text, show_cw(w)), desc: format!("`{}` on /{}/: error {:?}", text, show_cw(w), er), case: json!({"rule2": text, "word": cw_json(w), "expected": cw_json(&e)}) }),
                o => a.viols.push(Viol { key: format!("crash|{}", text), desc: o.crash_desc().unwrap(), case: json!({"rule2": text, "word": cw_json(w), "expected": cw_json(&e)}) }),
            }
        }
    }, |a| { t2.evals += a.evals; t2.nontrivial += a.nontrivial; t2.viols.extend(a.viols); t2.states.extend(a.states); });
    r.boxes.push(json!({"box": "alpha + second condition on multi-segment words", "rules": pairs.len(), "words": words.len(), "cases": t2.evals, "model_predicts_change": t2.nontrivial}));
    r.guard(t2.nontrivial > 1000, "box 2: more than 1000 cases change the word");
    tot.evals += t2.evals; tot.nontrivial += t2.nontrivial; tot.viols.extend(t2.viols); tot.states.extend(t2.states);
    // ---- box 3: an alpha bound at one matching position and used (plain or inverted) at a later one: context/context,
    // input/context and exception; outer segments from a universe that includes segments lacking each place sub-node
    let pick: Vec<SegBits> = { let mut v: Vec<SegBits> = ["p", "t", "k", "s", "ʃ", "f", "u", "i", "a", "o", "h", "ʔ", "ħ", "m", "ŋ", "l", "w", "q", "c", "b"].iter().map(|t| seg(t)).collect(); v.extend(segs.iter().step_by(23).map(|x| x.1)); v.sort(); v.dedup(); v };
    let tt = seg("t");
    let mut forms: Vec<(usize, bool, bool, u8)> = vec![];
    for f in 0..26 { for i1 in [false, true] { for i2 in [false, true] { for form in 0..5u8 { forms.push((f, i1, i2, form)); } } } }
    let mut t3 = Acc { evals: 0, nontrivial: 0, viols: vec![], states: Default::default(), fired: 0 };
    par_fold(forms.len(), 2, || Acc { evals: 0, nontrivial: 0, viols: vec![], states: Default::default(), fired: 0 }, |i, a| {
        let (f, i1, i2, form) = forms[i];
        let m = |inv: bool| format!("[{}α{}]", if inv { "-" } else { "" }, FEATS[f].0);
        // forms 3 and 4: the alpha is bound by the context (form 4: by the input) and used again in the exception
        let text = match form { 0 => format!("t > [tone:7] / {} _ {}", m(i1), m(i2)), 1 => format!("{} > [tone:7] / _ t {}", m(i1), m(i2)), 2 => format!("t > [tone:7] | {} _ {}", m(i1), m(i2)),
            3 => format!("t > [tone:7] / {} _ | _ {}", m(i1), m(i2)), _ => format!("{} > [tone:7] / _ t | _ t {}", m(i1), m(i2)) };
        let Out::Ok(Ok(compiled)) = guarded(5_000_000, || av::compile(&[group(&[&text])])) else { a.viols.push(Viol { key: format!("compile|{}", text), desc: format!("`{}` does not compile", text), case: json!({"rule": text}) }); return; };
        for x in &pick { for y in &pick {
            if *x == tt || *y == tt { continue; }
            let w: CW = vec![CSyl { segs: vec![*x, tt, *y], stress: 0, tone: 0 }];
            // first use binds alpha (to the value, or its inverse for `-α`) if the feature is defined; second use compares
            let agree = match (model::feat(*x, f), model::feat(*y, f)) { (Some(fx), Some(fy)) => { let alpha = fx ^ i1; fy == (alpha ^ i2) } _ => false };
            let fires = match form { 2 => !agree, 3 | 4 => model::feat(*x, f).is_some() && !agree, _ => agree };
            let mut e = w.clone(); if fires { e[0].tone = 7; }
            a.evals += 1;
            match guarded(200_000, || av::apply_group(&compiled, 0, word_of(&w)).map(|x| cw_of(&x))) {
                Out::Ok(Ok(got)) if got == e => { if fires { a.nontrivial += 1; } a.states.insert(hash64(&(f, i1, i2, form, fires))); }
                Out::Ok(Ok(got)) => a.viols.push(Viol { key: format!("{}|{}", text, show_cw(&w)), desc: format!("`{}` on /{}/: model /{}/ ({} = {:?} on the first, {:?} on the second segment), implementation /{}/", text, show_cw(&w), show_cw(&e), FEATS[f].0, model::feat(*x, f), model::feat(*y, f), show_cw(&got)), case: json!({"rule2": text, "word": cw_json(&w), "expected": cw_json(&e)}) }),
                Out::Ok(Err(er)) => a.viols.push(Viol { key: format!("{}|{}", text, show_cw(&w)), desc: format!("`{}` on /{}/: error {:?}", text, show_cw(&w), er), case: json!({"rule2": text, "word": cw_json(&w), "expected": cw_json(&e)}) }),
                o => a.viols.push(Viol { key: format!("crash|{}", text), desc: o.crash_desc().unwrap(), case: json!({"rule2": text, "word": cw_json(&w), "expected": cw_json(&e)}) }),
            }
        } }
    }, |a| { t3.evals += a.evals; t3.nontrivial += a.nontrivial; t3.viols.extend(a.viols); t3.states.extend(a.states); });
    r.boxes.push(json!({"box": "alpha bound at one position, used plain / inverted at a later one (context-context, input-context, exception, context-then-exception, input-then-exception)", "rules": forms.len(), "outer_segments": pick.len(), "cases": t3.evals, "model_predicts_firing": t3.nontrivial}));
    r.guard(t3.nontrivial > 10_000, "box 3: more than 10k cases fire");
    tot.evals += t3.evals; tot.nontrivial += t3.nontrivial; tot.viols.extend(t3.viols); tot.states.extend(t3.states);
    // ---- box 3b: the same with NODE alphas (`[αlabial]` .. `[αpharyngeal]`, `[αPLACE]`): a node alpha carries the whole node - present or
    // absent, and every feature bit of it - so a later `[αN]` matches exactly the segments whose node N is identical and `[-αN]` exactly the others
    {
        let nodes: [(&str, usize); 5] = [("labial", 0), ("coronal", 1), ("dorsal", 2), ("pharyngeal", 3), ("PLACE", 9)];
        let mut nforms: Vec<(usize, bool, u8)> = vec![];
        for n in 0..nodes.len() { for inv in [false, true] { for form in 0..3u8 { nforms.push((n, inv, form)); } } }
        let mut t3b = Acc { evals: 0, nontrivial: 0, viols: vec![], states: Default::default(), fired: 0 };
        par_fold(nforms.len(), 1, || Acc { evals: 0, nontrivial: 0, viols: vec![], states: Default::default(), fired: 0 }, |i, a| {
            let (n, inv, form) = nforms[i];
            let (m1, m2) = (format!("[α{}]", nodes[n].0), format!("[{}α{}]", if inv { "-" } else { "" }, nodes[n].0));
            let text = match form { 0 => format!("t > [tone:7] / {} _ {}", m1, m2), 1 => format!("{} > [tone:7] / _ t {}", m1, m2), _ => format!("t > [tone:7] | {} _ {}", m1, m2) };
            let Out::Ok(Ok(compiled)) = guarded(5_000_000, || av::compile(&[group(&[&text])])) else { a.viols.push(Viol { key: format!("compile|{}", text), desc: format!("`{}` does not compile", text), case: json!({"rule": text}) }); return; };
            for x in &pick { for y in &pick {
                if *x == tt || *y == tt { continue; }
                let w: CW = vec![CSyl { segs: vec![*x, tt, *y], stress: 0, tone: 0 }];
                let same = if nodes[n].1 == 9 { x.3 == y.3 } else { model::sub(x.3, nodes[n].1) == model::sub(y.3, nodes[n].1) };
                let agree = same != inv;
                let fires = if form == 2 { !agree } else { agree };
                let mut e = w.clone(); if fires { e[0].tone = 7; }
                a.evals += 1;
                match guarded(200_000, || av::apply_group(&compiled, 0, word_of(&w)).map(|x| cw_of(&x))) {
                    Out::Ok(Ok(got)) if got == e => { if fires { a.nontrivial += 1; } a.states.insert(hash64(&(n, inv, form, fires, 77u8))); }
                    Out::Ok(Ok(got)) => a.viols.push(Viol { key: format!("{}|{}", text, show_cw(&w)), desc: format!("`{}` on /{}/: model /{}/ (node {} is {} on the outer segments), implementation /{}/", text, show_cw(&w), show_cw(&e), nodes[n].0, if same { "identical" } else { "different" }, show_cw(&got)), case: json!({"rule2": text, "word": cw_json(&w), "expected": cw_json(&e)}) }),
                    Out::Ok(Err(er)) => a.viols.push(Viol { key: format!("{}|{}", text, show_cw(&w)), desc: format!("`{}` on /{}/: error {:?}", text, show_cw(&w), er), case: json!({"rule2": text, "word": cw_json(&w), "expected": cw_json(&e)}) }),
                    o => a.viols.push(Viol { key: format!("crash|{}", text), desc: o.crash_desc().unwrap(), case: json!({"rule2": text, "word": cw_json(&w), "expected": cw_json(&e)}) }),
                }
            } }
        }, |a| { t3b.evals += a.evals; t3b.nontrivial += a.nontrivial; t3b.viols.extend(a.viols); t3b.states.extend(a.states); });
        r.boxes.push(json!({"box": "node alphas bound at one position, used plain / inverted at a later one (5 nodes x 3 forms)", "rules": nforms.len(), "outer_segments": pick.len(), "cases": t3b.evals, "model_predicts_firing": t3b.nontrivial}));
        r.guard(t3b.nontrivial > 2_000, "box 3b: more than 2k cases fire");
        tot.evals += t3b.evals; tot.nontrivial += t3b.nontrivial; tot.viols.extend(t3b.viols); tot.states.extend(t3b.states);
    }
    // ---- box 4: an alpha inside an alternative of a set. The alternatives are disjoint (`[αF, vG]` and `[-vG]`), so which one is taken
    // does not depend on the order of trial or on backtracking; a binding made by an alternative that was then rejected (F is tested
    // before G or after it, depending on the feature order) must not reach the later `[αF]`
    let mut sforms: Vec<(usize, usize, bool, bool, bool, u8)> = vec![];
    for f in 0..26 { for g in &fsub { if f != *g { for v in [true, false] { for i1 in [false, true] { for i2 in [false, true] { for form in 0..2u8 { sforms.push((f, *g, v, i1, i2, form)); } } } } } } }
    let mut t4 = Acc { evals: 0, nontrivial: 0, viols: vec![], states: Default::default(), fired: 0 };
    par_fold(sforms.len(), 2, || Acc { evals: 0, nontrivial: 0, viols: vec![], states: Default::default(), fired: 0 }, |i, a| {
        let (f, g, v, i1, i2, form) = sforms[i];
        let m = |inv: bool| format!("{}α{}", if inv { "-" } else { "" }, FEATS[f].0);
        let sg = |pos: bool| format!("{}{}", if pos { "+" } else { "-" }, FEATS[g].0);
        let set = format!("{{[{}, {}], [{}]}}", m(i1), sg(v), sg(!v));
        let text = if form == 0 { format!("t > [tone:7] / _ {} [{}]", set, m(i2)) } else { format!("{} > [tone:7] / _ [{}]", set, m(i2)) };
        let Out::Ok(Ok(compiled)) = guarded(5_000_000, || av::compile(&[group(&[&text])])) else { a.viols.push(Viol { key: format!("compile|{}", text), desc: format!("`{}` does not compile", text), case: json!({"rule": text}) }); return; };
        for x in &pick { for y in &pick {
            if *x == tt || *y == tt || x == y { continue; }
            let w: CW = if form == 0 { vec![CSyl { segs: vec![tt, *x, *y], stress: 0, tone: 0 }] } else { vec![CSyl { segs: vec![*x, *y], stress: 0, tone: 0 }] };
            let first = model::feat(*x, g) == Some(v) && model::feat(*x, f).is_some();
            let second = model::feat(*x, g) == Some(!v);
            let fires = if first { let alpha = model::feat(*x, f).unwrap() ^ i1; model::feat(*y, f) == Some(alpha ^ i2) } else if second { model::feat(*y, f).is_some() } else { false };
            let mut e = w.clone(); if fires { e[0].tone = 7; }
            a.evals += 1;
            match guarded(200_000, || av::apply_group(&compiled, 0, word_of(&w)).map(|x| cw_of(&x))) {
                Out::Ok(Ok(got)) if got == e => { if fires { a.nontrivial += 1; } a.states.insert(hash64(&(f, g, v, i1, i2, form, fires, first))); }
                Out::Ok(Ok(got)) => a.viols.push(Viol { key: format!("{}|{}", text, show_cw(&w)), desc: format!("`{}` on /{}/: model /{}/ (first alternative {} the set's segment; {} = {:?} there, {:?} on the last segment), implementation /{}/", text, show_cw(&w), show_cw(&e), if first { "matches" } else { "does not match" }, FEATS[f].0, model::feat(*x, f), model::feat(*y, f), show_cw(&got)), case: json!({"rule2": text, "word": cw_json(&w), "expected": cw_json(&e)}) }),
                Out::Ok(Err(er)) => a.viols.push(Viol { key: format!("{}|{}", text, show_cw(&w)), desc: format!("`{}` on /{}/: error {:?}", text, show_cw(&w), er), case: json!({"rule2": text, "word": cw_json(&w), "expected": cw_json(&e)}) }),
                o => a.viols.push(Viol { key: format!("crash|{}", text), desc: o.crash_desc().unwrap(), case: json!({"rule2": text, "word": cw_json(&w), "expected": cw_json(&e)}) }),
            }
        } }
    }, |a| { t4.evals += a.evals; t4.nontrivial += a.nontrivial; t4.viols.extend(a.viols); t4.states.extend(a.states); });
    r.boxes.push(json!({"box": "alpha inside a set alternative (context set / input set), later use plain or inverted; disjoint alternatives", "rules": sforms.len(), "outer_segments": pick.len(), "cases": t4.evals, "model_predicts_firing": t4.nontrivial}));
    r.guard(t4.nontrivial > 10_000, "box 4: more than 10k cases fire");
    tot.evals += t4.evals; tot.nontrivial += t4.nontrivial; tot.viols.extend(t4.viols); tot.states.extend(t4.states);
    // ---- box 8: a matrix that names a feature AND a length: every copy of the resulting (possibly longer or shorter) segment carries the feature
    let mut t8 = Acc { evals: 0, nontrivial: 0, viols: vec![], states: Default::default(), fired: 0 };
    let lens8: [(&str, u8); 5] = [("+long", 1), ("-long", 2), ("+overlong", 3), ("-overlong", 4), ("+long, -overlong", 5)];
    par_fold(26 * 2 * lens8.len(), 4, || Acc { evals: 0, nontrivial: 0, viols: vec![], states: Default::default(), fired: 0 }, |i, a| {
        let (f, v, lk) = (i / (2 * lens8.len()), (i / lens8.len()) % 2 == 0, i % lens8.len());
        let text = format!("[] > [{}, {}{}]", lens8[lk].0, if v { "+" } else { "-" }, FEATS[f].0);
        let Out::Ok(Ok(compiled)) = guarded(5_000_000, || av::compile(&[group(&[&text])])) else { a.viols.push(Viol { key: format!("compile|{}", text), desc: format!("`{}` does not compile", text), case: json!({"rule": text}) }); return; };
        for x in pick.iter() { for len in 1..=3usize {
            let w: CW = vec![CSyl { segs: vec![*x; len], stress: 0, tone: 0 }];
            let nb = model::set_feat(*x, f, v);
            let nl = match lens8[lk].1 { 1 => len.max(2), 2 => 1, 3 => 3, 4 => len.min(2), _ => 2 };
            let e: CW = vec![CSyl { segs: vec![nb; nl], stress: 0, tone: 0 }];
            a.evals += 1;
            match guarded(200_000, || av::apply_group(&compiled, 0, word_of(&w)).map(|x| cw_of(&x))) {
                Out::Ok(Ok(got)) if got == e => { if e != w { a.nontrivial += 1; } a.states.insert(hash64(&got)); }
                Out::Ok(Ok(got)) => a.viols.push(Viol { key: format!("{}|{}", text, show_cw(&w)), desc: format!("`{}` on /{}/: model /{}/ (every copy carries the feature), implementation /{}/", text, show_cw(&w), show_cw(&e), show_cw(&got)), case: json!({"rule2": text, "word": cw_json(&w), "expected": cw_json(&e)}) }),
                Out::Ok(Err(er)) => a.viols.push(Viol { key: format!("{}|{}", text, show_cw(&w)), desc: format!("`{}` on /{}/: error {:?}", text, show_cw(&w), er), case: json!({"rule2": text, "word": cw_json(&w), "expected": cw_json(&e)}) }),
                o => a.viols.push(Viol { key: format!("crash|{}", text), desc: o.crash_desc().unwrap(), case: json!({"rule2": text, "word": cw_json(&w), "expected": cw_json(&e)}) }),
            }
        } }
    }, |a| { t8.evals += a.evals; t8.nontrivial += a.nontrivial; t8.viols.extend(a.viols); t8.states.extend(a.states); });
    r.boxes.push(json!({"box": "a feature and a length in one output matrix, on short / long / overlong segments", "rules": 26 * 2 * lens8.len(), "cases": t8.evals, "model_predicts_change": t8.nontrivial}));
    r.guard(t8.nontrivial > 10_000, "box 8: more than 10k cases change the word");
    tot.evals += t8.evals; tot.nontrivial += t8.nontrivial; tot.viols.extend(t8.viols); tot.states.extend(t8.states);
    // ---- box 9: a segment INSERTED with a matrix next to the very segment it is a copy of (`* > t:[+voice] / _ t`): the matrix belongs to the
    // inserted segment alone; the neighbour keeps its features and its length although the two may look like one long segment
    {
        let bases = ["t", "p", "k", "s", "a", "i", "m", "l"];
        let mut t9 = Acc { evals: 0, nontrivial: 0, viols: vec![], states: Default::default(), fired: 0 };
        for x in bases { let xb = seg(x); for (fi, f) in FEATS.iter().enumerate() { for val in [true, false] { for after in [true, false] { for nlen in 1..=2usize {
            let Some(_) = model::feat(xb, fi) else { continue };
            let nb = model::set_feat(xb, fi, val);
            if nb == xb { continue; }
            // the site is named by the OTHER neighbour (/e X.. o/: after the e = in front of the twin, before the o = behind it), so that no
            // environment item has to be matched against the long segment itself
            let text = if after { format!("* > {}:[{}{}] / e _", x, if val { "+" } else { "-" }, f.0) } else { format!("* > {}:[{}{}] / _ o", x, if val { "+" } else { "-" }, f.0) };
            let Out::Ok(Ok(compiled)) = guarded(5_000_000, || av::compile(&[group(&[&text])])) else { continue };
            let (e_seg, o) = (seg("e"), seg("o"));
            let mut segs = vec![e_seg]; for _ in 0..nlen { segs.push(xb); } segs.push(o);
            let w: CW = vec![CSyl { segs: segs.clone(), stress: 0, tone: 0 }];
            let mut es = segs.clone(); es.insert(if after { 1 } else { 1 + nlen }, nb);
            let e: CW = vec![CSyl { segs: es, stress: 0, tone: 0 }];
            t9.evals += 1;
            match guarded(200_000, || av::apply_group(&compiled, 0, word_of(&w)).map(|x| cw_of(&x))) {
                Out::Ok(Ok(got)) if got == e => { t9.nontrivial += 1; t9.states.insert(hash64(&(x, fi, val, after, nlen, 99u8))); }
                Out::Ok(Ok(got)) => t9.viols.push(Viol { key: format!("insert-next-to-twin|{}|{}", text, show_cw(&w)), desc: format!("`{}` on /{}/: expected /{}/ (the inserted segment carries the feature, its neighbour is untouched), got /{}/", text, show_cw(&w), show_cw(&e), show_cw(&got)), case: json!({"rule2": text, "word": cw_json(&w), "expected": cw_json(&e)}) }),
                Out::Ok(Err(_)) => {}
                o => t9.viols.push(Viol { key: format!("crash|{}", text), desc: o.crash_desc().unwrap(), case: json!({"rule2": text, "word": cw_json(&w), "expected": cw_json(&e)}) }),
            }
        } } } } }
        // the same through a variable written as an EXTRA output element: `X=1 q > 1 q 1:[vF]` on /e X q X o/ puts a copy of X, with the feature,
        // in front of the second X
        for x in bases { let xb = seg(x); for (fi, f) in FEATS.iter().enumerate() { for val in [true, false] {
            let Some(_) = model::feat(xb, fi) else { continue };
            let nb = model::set_feat(xb, fi, val);
            if nb == xb { continue; }
            // (a literal cannot be given a variable: the group letter of X stands in for it)
            let text = format!("{}=1 q > 1 q 1:[{}{}]", if x == "a" || x == "i" { "V" } else { "C" }, if val { "+" } else { "-" }, f.0);
            let Out::Ok(Ok(compiled)) = guarded(5_000_000, || av::compile(&[group(&[&text])])) else { continue };
            let (e_seg, o, q) = (seg("e"), seg("o"), seg("q"));
            let w: CW = vec![CSyl { segs: vec![e_seg, xb, q, xb, o], stress: 0, tone: 0 }];
            let e: CW = vec![CSyl { segs: vec![e_seg, xb, q, nb, xb, o], stress: 0, tone: 0 }];
            t9.evals += 1;
            match guarded(200_000, || av::apply_group(&compiled, 0, word_of(&w)).map(|x| cw_of(&x))) {
                Out::Ok(Ok(got)) if got == e => { t9.nontrivial += 1; t9.states.insert(hash64(&(x, fi, val, 98u8))); }
                Out::Ok(Ok(got)) => t9.viols.push(Viol { key: format!("extra-output-next-to-twin|{}|{}", text, show_cw(&w)), desc: format!("`{}` on /{}/: expected /{}/ (the written copy carries the feature, the segment after it is untouched), got /{}/", text, show_cw(&w), show_cw(&e), show_cw(&got)), case: json!({"rule2": text, "word": cw_json(&w), "expected": cw_json(&e)}) }),
                Out::Ok(Err(_)) => {}
                o => t9.viols.push(Viol { key: format!("crash|{}", text), desc: o.crash_desc().unwrap(), case: json!({"rule2": text, "word": cw_json(&w), "expected": cw_json(&e)}) }),
            }
        } } }
        r.boxes.push(json!({"box": "a segment inserted with a one-feature matrix next to its own twin (8 phones x 26 features x both values x before / after x neighbour short / long)", "cases": t9.evals, "as_model": t9.nontrivial}));
        r.guard(t9.nontrivial > 300, "box 9: more than 300 cases as the model says");
        tot.evals += t9.evals; tot.nontrivial += t9.nontrivial; tot.viols.extend(t9.viols); tot.states.extend(t9.states);
    }
    // ---- box 6: bindings made by an environment that then fails belong to that attempt only. (a) an environment set whose first alternative binds the
    // alpha on x and then fails on y, while the second binds it on y: `t > [tone:7] / :{ _ [αF] p, _ [] [αF] }:` (both orders) on /t x y/ fires iff
    // (F defined on x and y = p) or F defined on y. (b) insertion between two contexts, `* > ə / [αF] _ [αF]` on /x y z/: a schwa between every
    // two neighbours that agree in F (a rejected site must not decide the next one)
    let small: Vec<SegBits> = ["p", "t", "d", "b", "s", "z", "a", "i", "u", "m", "h", "k"].iter().map(|t| seg(t)).collect();
    let pp = seg("p"); let schwa = seg("ə");
    let mut t6 = Acc { evals: 0, nontrivial: 0, viols: vec![], states: Default::default(), fired: 0 };
    par_fold(26 * 3, 1, || Acc { evals: 0, nontrivial: 0, viols: vec![], states: Default::default(), fired: 0 }, |i, a| {
        let (f, form) = (i / 3, i % 3);
        let af = format!("[α{}]", FEATS[f].0);
        let text = match form { 0 => format!("t > [tone:7] / :{{ _ {} p, _ [] {} }}:", af, af), 1 => format!("t > [tone:7] / :{{ _ [] {}, _ {} p }}:", af, af), _ => format!("* > ə / {} _ {}", af, af) };
        let Out::Ok(Ok(compiled)) = guarded(5_000_000, || av::compile(&[group(&[&text])])) else { a.viols.push(Viol { key: format!("compile|{}", text), desc: format!("`{}` does not compile", text), case: json!({"rule": text}) }); return; };
        let mut cases: Vec<(CW, CW, bool)> = vec![];
        if form < 2 {
            for x in &small { for y in &small { if *x == tt || *y == tt || x == y { continue; }
                let w: CW = vec![CSyl { segs: vec![tt, *x, *y], stress: 0, tone: 0 }];
                let fires = (model::feat(*x, f).is_some() && *y == pp) || model::feat(*y, f).is_some();
                let mut e = w.clone(); if fires { e[0].tone = 7; }
                cases.push((w, e, fires));
            } }
        } else {
            for x in &small { for y in &small { for z in &small { if x == y || y == z || *x == schwa { continue; }
                let w: CW = vec![CSyl { segs: vec![*x, *y, *z], stress: 0, tone: 0 }];
                let agree = |l: SegBits, r: SegBits| matches!((model::feat(l, f), model::feat(r, f)), (Some(p), Some(q)) if p == q);
                let mut segs = vec![*x]; let mut n = 0;
                if agree(*x, *y) { segs.push(schwa); n += 1; } segs.push(*y);
                if agree(*y, *z) { segs.push(schwa); n += 1; } segs.push(*z);
                cases.push((w, vec![CSyl { segs, stress: 0, tone: 0 }], n > 0));
            } } }
        }
        for (w, e, fires) in cases {
            a.evals += 1;
            match guarded(400_000, || av::apply_group(&compiled, 0, word_of(&w)).map(|x| cw_of(&x))) {
                Out::Ok(Ok(got)) if got == e => { if fires { a.nontrivial += 1; } a.states.insert(hash64(&(f, form, fires))); }
                Out::Ok(Ok(got)) => a.viols.push(Viol { key: format!("{}|{}", text, show_cw(&w)), desc: format!("`{}` on /{}/: model /{}/, implementation /{}/", text, show_cw(&w), show_cw(&e), show_cw(&got)), case: json!({"rule2": text, "word": cw_json(&w), "expected": cw_json(&e)}) }),
                Out::Ok(Err(er)) => a.viols.push(Viol { key: format!("{}|{}", text, show_cw(&w)), desc: format!("`{}` on /{}/: error {:?}", text, show_cw(&w), er), case: json!({"rule2": text, "word": cw_json(&w), "expected": cw_json(&e)}) }),
                o => a.viols.push(Viol { key: format!("crash|{}", text), desc: o.crash_desc().unwrap(), case: json!({"rule2": text, "word": cw_json(&w), "expected": cw_json(&e)}) }),
            }
        }
    }, |a| { t6.evals += a.evals; t6.nontrivial += a.nontrivial; t6.viols.extend(a.viols); t6.states.extend(a.states); });
    r.boxes.push(json!({"box": "alphas bound by an environment that then fails: environment sets (both orders) and insertion between two contexts", "rules": 78, "cases": t6.evals, "model_predicts_change": t6.nontrivial}));
    r.guard(t6.nontrivial > 5_000, "box 6: more than 5000 cases change the word");
    tot.evals += t6.evals; tot.nontrivial += t6.nontrivial; tot.viols.extend(t6.viols); tot.states.extend(t6.states);
    // ---- box 5: an IPA letter with a matrix, `b:[vF]`, stands for exactly one bundle — the letter's own with F set to v (every other feature and every
    // node, present or absent, as in the letter). Probed on the letter's whole family: all 365 base phones and the letter with each diacritic
    let letters = ["t", "d", "k", "p", "s", "n", "m", "l", "a", "i", "u", "h", "ʔ", "q", "ʃ", "x"];
    let dias = av::diacritics();
    let mut t5 = Acc { evals: 0, nontrivial: 0, viols: vec![], states: Default::default(), fired: 0 };
    let base_segs: Vec<SegBits> = segs.iter().map(|x| x.1).collect();
    par_fold(letters.len(), 1, || Acc { evals: 0, nontrivial: 0, viols: vec![], states: Default::default(), fired: 0 }, |li, a| {
        let l = letters[li]; let lb = seg(l);
        let mut family: Vec<SegBits> = base_segs.clone();
        for d in &dias { if let Out::Ok(Ok(w)) = guarded(200_000, || av::parse_word(&format!("{}{}", l, d), None)) { if w.syllables.len() == 1 && w.syllables[0].segments.len() == 1 { family.push(bits(&w.syllables[0].segments[0])); } } }
        family.sort(); family.dedup();
        for f in 0..26 { for v in [true, false] {
            // a feature of a sub-node the letter does not have cannot be asked of it (the implementation then never matches; not documented)
            if model::feat(lb, f).is_none() { continue; }
            let want = model::set_feat(lb, f, v);
            let text = format!("{}:[{}{}] > [tone:7]", l, if v { "+" } else { "-" }, FEATS[f].0);
            let Out::Ok(Ok(compiled)) = guarded(5_000_000, || av::compile(&[group(&[&text])])) else { a.viols.push(Viol { key: format!("compile|{}", text), desc: format!("`{}` does not compile", text), case: json!({"rule": text}) }); continue; };
            for x in &family {
                let w: CW = vec![CSyl { segs: vec![*x], stress: 0, tone: 0 }];
                let fires = *x == want;
                let mut e = w.clone(); if fires { e[0].tone = 7; }
                a.evals += 1;
                match guarded(200_000, || av::apply_group(&compiled, 0, word_of(&w)).map(|x| cw_of(&x))) {
                    Out::Ok(Ok(got)) if got == e => { if fires { a.nontrivial += 1; } a.states.insert(hash64(&(li, f, v, fires))); }
                    Out::Ok(Ok(got)) => a.viols.push(Viol { key: format!("{}|{}", text, show_cw(&w)), desc: format!("`{}` on /{}/: the item stands for /{}/ only: model /{}/, implementation /{}/", text, show_cw(&w), show_cw(&vec![CSyl { segs: vec![want], stress: 0, tone: 0 }]), show_cw(&e), show_cw(&got)), case: json!({"rule2": text, "word": cw_json(&w), "expected": cw_json(&e)}) }),
                    Out::Ok(Err(er)) => a.viols.push(Viol { key: format!("{}|{}", text, show_cw(&w)), desc: format!("`{}` on /{}/: error {:?}", text, show_cw(&w), er), case: json!({"rule2": text, "word": cw_json(&w), "expected": cw_json(&e)}) }),
                    o => a.viols.push(Viol { key: format!("crash|{}", text), desc: o.crash_desc().unwrap(), case: json!({"rule2": text, "word": cw_json(&w), "expected": cw_json(&e)}) }),
                }
            }
        } }
    }, |a| { t5.evals += a.evals; t5.nontrivial += a.nontrivial; t5.viols.extend(a.viols); t5.states.extend(a.states); });
    r.boxes.push(json!({"box": "IPA letter with a one-feature matrix as input, on the base phones and the letter's diacritic family", "letters": letters.len(), "cases": t5.evals, "model_predicts_firing": t5.nontrivial}));
    r.guard(t5.nontrivial > 200, "box 5: more than 200 cases fire");
    tot.evals += t5.evals; tot.nontrivial += t5.nontrivial; tot.viols.extend(t5.viols); tot.states.extend(t5.states);
    r.evaluations = tot.evals; r.transitions = tot.evals; r.validated = tot.evals; r.nontrivial = tot.nontrivial;
    r.states = tot.states;
    r.boxes.push(json!({"box": "ops x segments", "ops": ops.len(), "segments": segs.len(), "cases": tot.evals, "model_predicts_change_or_fire": tot.nontrivial}));
    r.guard(tot.nontrivial * 10 > tot.evals, "at least 10% of the cases change the segment or fire the probe");
    r.guard(segs.len() >= 365, "365 base phones present");
    for v in tot.viols { r.viol(v); }
    r.sample(json!({"rule": "[] > [+round]", "word": "t", "model": format!("{:?}", predict(&Op::Set(15, true), seg("t")))}));
    r.sample(json!({"rule": "[αvoice] > [-αsg]", "word": "b", "model": format!("{:?}", predict(&Op::Alpha(11, 12, true), seg("b")))}));
    r.sample(json!({"rule": "[-high] > [tone:7]", "word": "p", "model": "no match: dorsal sub-node absent"}));
    r.finish()
}

pub fn replay(case: &Value) -> Result<String, String> {
    if let Some(text) = case["rule2"].as_str() {
        let w = cw_from_json(&case["word"]).ok_or("word")?; let e = cw_from_json(&case["expected"]).ok_or("expected")?;
        let c = match guarded(5_000_000, || av::compile(&[group(&[text])])) { Out::Ok(Ok(c)) => c, o => return Err(format!("compile failed: {:?}", o.crash_desc())) };
        return match guarded(200_000, || av::apply_group(&c, 0, word_of(&w)).map(|x| cw_of(&x))) { Out::Ok(Ok(g)) if g == e => Ok("agrees with the model".into()), Out::Ok(Ok(g)) => Err(format!("model /{}/, implementation /{}/", show_cw(&e), show_cw(&g))), Out::Ok(Err(x)) => Err(format!("{:?}", x)), o => Err(o.crash_desc().unwrap()) };
    }
    let text = case["rule"].as_str().ok_or("no rule")?.to_string();
    let ops = all_ops();
    let op = ops.iter().find(|o| rule_text(o) == text).ok_or("unknown op")?;
    let a = case["seg"].as_array().ok_or("compile-time case: rule does not compile")?;
    let b = (a[0].as_u64().unwrap() as u8, a[1].as_u64().unwrap() as u8, a[2].as_u64().unwrap() as u8, a[3].as_u64().map(|v| v as u16));
    let c = match guarded(5_000_000, || av::compile(&[group(&[&text])])) { Out::Ok(Ok(c)) => c, o => return Err(format!("compile failed: {:?}", o.crash_desc())) };
    match eval(op, &c, b) { Ok(_) => Ok(format!("`{}` on {:?} agrees with the model", text, b)), Err(d) => Err(d) }
}
