//! C17 — errors can always be shown and point at the line that caused them.
use crate::util::*;
use asca::{ASCAError, Error, RuleGroup};
use serde_json::{json, Value};

/// (fault line, needs these words to fire (runtime) or None (syntax))
const RULE_FAULTS: [&str; 79] = [
    // a bare `%` / structure whose span must not be empty when no blank follows it (runtime errors on the words of the base projects)
    "a > %", "a>%", "%>a", "% > a", "a>⟨⟩", "⟨⟩>a",
    // syntax
    "a >", "> a", "a > e / _ _", "a > e / ##_", "a > e / _#s", "[+foo] > a", "a > [+", "a > e / (C,2:1)_", "a > e ;x", "a => ", "a > e / p", "{a > e", "a > e / _)", "a > [tone:12345]", "a > e / :{ _a",
    "* > *", "* > &", "a > * e", "a > & e", "a = e", "C=x > 1", "a:[+long > e", "a > e | ", "a, b > c, d, e", "a > e / _, b_, c_", "a > (e)", "a > ...", "a > e / _,", "a > [+voice", "a > e / _ / _", "a > %:[+voice]", "a > e / [tone:5]:", "& > a",
    // runtime (fire on /pa.ta/ or /a/)
    "[] > [+place]", "[] > [-root]", "a > [-long, +overlong]", "a > [-stress, +sec.stress]", "% > a", "%:[+stress, -long] > a / _#", "a > 1", "* > a", "* > a / :{ _#, #_ }:", "* > [+voice] / _#", "{p,t} > {b}", "a > {e}", "a % > &", "$ % > &", "a > [βvoice]", "a > [-αvoice]", "a > ⟨C⟩", "a > ⟨...⟩", "a > *", "% > * / _#",
    // two-position runtime errors whose first element is much wider than the second (the marker line must still fit the line)
    "%:[+stress] > a", "%:[+stress] > a / _#", "%:[+stress, -sec.stress] > a", "⟨ta⟩:[+stress] > a", "%:[tone: 51] > e", "%:[+stress] > a:[+long, -nasal]", "{p,t}:[-voice, -long] > {b}", "a:[-long, -nasal] > {e}",
    "a:[-long, -stress] % > &", "$ %:[-sec.stress] > &", "a:[-long, -nasal, -stress] > 1", "a:[-long, -nasal, -stress] > [-αvoice]",
    // unbalanced condensed rules: every part that can be out of step (inputs / outputs / contexts / exceptions), with and without the other clause
    "p, t, k > b | _a, _i", "p, t, k > b // _a, _i", "p, t, k > b / _# | _a, _i", "p, t, k > b / _a, _i | _#", "p, t, k > b / _a, _i", "p, t > b, d, g", "p, t, k > b, d", "p, t, k > b, d / _a | _i",
];
/// the same fault with its plain letters respelt as letters that carry combining marks (`a` -> `ã`, `e` -> `t͡s`, `i` -> `n̩`, `b`/`d` -> `d͡z`):
/// positions are counted in characters, so marks before, inside and after the marked span must not move or break the marker line
fn decorate(fault: &str, which: usize) -> Option<String> {
    let cs: Vec<char> = fault.chars().collect();
    let mut out = String::new();
    let mut changed = false;
    let mut depth = 0i32;
    for (i, c) in cs.iter().enumerate() {
        if *c == '[' { depth += 1; } else if *c == ']' { depth -= 1; }
        let alone = depth == 0 && !(i > 0 && (cs[i - 1].is_alphanumeric() || cs[i - 1] == '=' )) && !(i + 1 < cs.len() && cs[i + 1].is_alphanumeric());
        let rep = match (*c, which) { ('a', 0) | ('a', 2) => Some("a\u{303}"), ('e', 1) | ('e', 2) => Some("t͡s"), ('i', 1) | ('i', 2) => Some("n̩"), ('b', 1) | ('b', 2) | ('d', 1) | ('d', 2) => Some("d͡z"), _ => None };
        match rep { Some(r) if alone => { out.push_str(r); changed = true; } _ => out.push(*c) }
    }
    if changed { Some(out) } else { None }
}

const FILLER: [&str; 6] = ["ɮ > l", ";; a comment line", "", "ŋʘ > ŋǀ / _#", "   ", "q > k | _#"];
const WORDS: [&str; 6] = ["pa.ta", "a", "ˈta", "ta51", "pa\u{303}.ta\u{303}", "a\u{303}"];

fn strip(s: &str) -> String { s.to_string() }

struct Shown { text: String, located: Option<(usize, usize)>, quoted: Option<String>, carets: Option<String> }
fn parse_shown(text: &str) -> Shown {
    let lines: Vec<&str> = text.lines().collect();
    let mut located = None;
    for l in &lines {
        if let Some(i) = l.find("@ Rule ") {
            let rest = &l[i + 7..];
            let nums: Vec<usize> = rest.split(|c: char| !c.is_ascii_digit()).filter(|x| !x.is_empty()).filter_map(|x| x.parse().ok()).collect();
            if nums.len() >= 2 { located = Some((nums[0], nums[1])); }
        }
    }
    let bars: Vec<String> = lines.iter().filter_map(|l| l.strip_prefix("    |     ").map(|x| x.to_string())).collect();
    Shown { text: text.to_string(), located, quoted: bars.first().cloned(), carets: bars.get(1).cloned() }
}

#[derive(Default)]
struct Acc { evals: u64, located: u64, viols: Vec<Viol>, variants: std::collections::BTreeSet<String>, not_triggered: u64 }

fn variant_of(e: &Error) -> String { let d = format!("{:?}", e); let mut p = d.splitn(3, '('); format!("{}({}", p.next().unwrap_or(""), p.next().unwrap_or("").split(|c: char| !c.is_alphanumeric()).next().unwrap_or("")) }

fn check_rule_fault(groups: &[RuleGroup], g: usize, l: usize, fault: &str, a: &mut Acc) {
    let words: Vec<String> = WORDS.iter().map(|s| s.to_string()).collect();
    let total: usize = groups.iter().map(|x| x.rule.iter().map(|r| r.chars().count() + 1).sum::<usize>()).sum();
    let res = guarded(budget_for(12, total) * 3, || asca::run(groups, &words, &[], &[]));
    let key = |what: &str| format!("{}|{}", what, fault);
    let case = || json!({"kind": "rule", "groups": groups.iter().map(|x| x.rule.clone()).collect::<Vec<_>>(), "g": g, "l": l, "fault": fault});
    a.evals += 1;
    let err = match res { Out::Ok(Err(e)) => e, Out::Ok(Ok(_)) => { a.not_triggered += 1; return; } _ => return };
    a.variants.insert(variant_of(&err));
    let shown = match guarded(1_000_000, || err.format_rule_error(groups)) {
        Out::Ok(s) => s,
        o => { a.viols.push(Viol { key: key("format-panics"), desc: format!("formatting {:?} against its own rules: {}", err, o.crash_desc().unwrap()), case: case() }); return; }
    };
    let sh = parse_shown(&shown);
    match sh.located {
        None => a.viols.push(Viol { key: format!("no-line-named|{}", variant_of(&err)), desc: format!("error {:?} for fault `{}` planted at group {} line {} names no rule group / line: {:?}", err, fault, g + 1, l + 1, sh.text), case: case() }),
        Some((rg, rl)) => {
            if rg == 0 || rl == 0 || rg > groups.len() || rl > groups[rg - 1].rule.len() { a.viols.push(Viol { key: key("names-nonexistent-line"), desc: format!("error names Rule {}, Line {} which does not exist", rg, rl), case: case() }); return; }
            if (rg, rl) != (g + 1, l + 1) { a.viols.push(Viol { key: key("wrong-line"), desc: format!("fault `{}` planted at Rule {}, Line {} is reported at Rule {}, Line {}: {}", fault, g + 1, l + 1, rg, rl, sh.text.replace('\n', " \\n ")), case: case() }); return; }
            let line_len = fault.chars().count();
            if sh.quoted.as_deref() != Some(fault) { a.viols.push(Viol { key: key("quotes-other-line"), desc: format!("error quotes {:?}, the faulty line is `{}`", sh.quoted, fault), case: case() }); return; }
            match &sh.carets {
                Some(c) if c.chars().all(|x| x == ' ' || x == '^') && c.contains('^') && c.trim_end().chars().count() <= line_len + 1 => { a.located += 1; }
                other => a.viols.push(Viol { key: format!("caret-outside-line|{}", variant_of(&err)), desc: format!("caret line {:?} does not fit the line `{}` ({} columns)", other, fault, line_len), case: case() }),
            }
        }
    }
}

/// None = fault did not trigger (or crashed: C02's); Some(None) = located; Some(Some(v)) = violation
fn check_alias_fault(words: &[String], into: &[String], from: &[String], fault: &str, pos: usize, is_into: bool) -> Option<Option<Viol>> {
    let res = guarded(2_000_000, || asca::run(&[], words, into, from));
    let case = json!({"kind": "alias", "into": into, "from": from, "fault": fault, "pos": pos, "is_into": is_into, "words": words});
    let err = match res { Out::Ok(Err(e)) => e, _ => return None };
    if !matches!(err, Error::AliasSyn(_) | Error::AliasRun(_)) { return Some(Some(Viol { key: format!("alias-wrong-error-kind|{}", fault), desc: format!("alias fault `{}` produced {:?}", fault, err), case })); }
    let shown = match guarded(1_000_000, || err.format_alias_error(into, from)) { Out::Ok(s) => s, o => return Some(Some(Viol { key: format!("alias-format-panics|{}", fault), desc: o.crash_desc().unwrap(), case })) };
    let kind = if is_into { "deromaniser" } else { "romaniser" };
    let want = format!("@ {}, line {}", kind, pos + 1);
    let bars: Vec<&str> = shown.lines().filter_map(|l| l.strip_prefix("    |     ")).collect();
    let caret_ok = bars.get(1).map(|c| c.trim_end().chars().count() <= fault.chars().count() + 1 && c.contains('^')).unwrap_or(false);
    if !shown.contains(&want) { Some(Some(Viol { key: format!("alias-wrong-line|{}", fault), desc: format!("alias fault `{}` planted as {} line {} is shown as: {}", fault, kind, pos + 1, shown.replace('\n', " \\n ")), case })) }
    else if bars.first().copied() != Some(fault) { Some(Some(Viol { key: format!("alias-quotes-other-line|{}", fault), desc: format!("quotes {:?}", bars.first()), case })) }
    else if !caret_ok { Some(Some(Viol { key: format!("alias-caret-outside-line|{}", fault), desc: format!("caret line {:?} does not fit `{}`", bars.get(1), fault), case })) }
    else { Some(None) }
}

fn check_word_fault(ws: &[String], fault: &str) -> Option<Option<Viol>> {
    let case = json!({"kind": "word", "words": ws, "fault": fault});
    let err = match guarded(2_000_000, || asca::run(&[group(&["a > e"])], ws, &[], &[])) { Out::Ok(Err(e)) => e, _ => return None };
    if !matches!(err, Error::WordSyn(_) | Error::WordRun(_)) { return Some(Some(Viol { key: format!("word-wrong-error-kind|{}", fault), desc: format!("word fault `{}` produced {:?}", fault, err), case })); }
    let shown = match guarded(1_000_000, || err.format_word_error(ws)) { Out::Ok(s) => s, o => return Some(Some(Viol { key: format!("word-format-panics|{}", fault), desc: o.crash_desc().unwrap(), case })) };
    let bars: Vec<&str> = shown.lines().filter_map(|l| l.strip_prefix("    |     ")).collect();
    // the word parser normalises ' , : ; before reporting; the faults here contain none of them
    if bars.first().copied() != Some(fault) { return Some(Some(Viol { key: format!("word-names-other-word|{}", fault), desc: format!("word fault `{}` is shown as: {}", fault, shown.replace('\n', " \\n ")), case })); }
    // a message that names a character of the word (diacritic `x`) must name the one under the caret
    if let (Some(i), Some(c)) = (shown.find("diacritic `"), bars.get(1)) {
        let named = shown[i + "diacritic `".len()..].chars().next();
        let col = c.chars().position(|x| x == '^');
        if let (Some(n), Some(col)) = (named, col) { if fault.chars().nth(col) != Some(n) { return Some(Some(Viol { key: format!("word-names-other-character|{}", fault), desc: format!("word fault `{}`: the message names `{}` but the caret is under `{:?}`: {}", fault, n, fault.chars().nth(col), shown.replace('\n', " \\n ")), case })); } }
    }
    if let Some(c) = bars.get(1) { if c.trim_end().chars().count() > fault.chars().count() + 1 { return Some(Some(Viol { key: format!("word-caret-outside|{}", fault), desc: format!("caret line {:?} does not fit `{}`", c, fault), case })); } }
    Some(None)
}

fn base_projects() -> Vec<Vec<Vec<&'static str>>> {
    vec![
        vec![vec![FILLER[0]]],
        vec![vec![FILLER[1], FILLER[0]], vec![FILLER[2], FILLER[3]]],
        vec![vec![FILLER[0], FILLER[2], FILLER[5]], vec![FILLER[1], FILLER[4], FILLER[3]], vec![FILLER[3], FILLER[1], FILLER[0]]],
    ]
}

pub fn run() -> i32 {
    let mut r = Report::new("C17");
    r.rule = "fault catalogue of 73 rule faults (33 syntax, 40 raised at application time, 12 of them two-position errors with a wide first element, 8 unbalanced condensed rules) covering the RuleSyntaxError / RuleRuntimeError variants reachable from text, planted into 3 valid rule-group lists (1-3 groups x 1-3 lines, with blank, whitespace-only and comment lines) at every (group, line) position in three ways (replace the line, insert before, insert after); 18 alias faults (four of them after a precomposed letter) at every line of a two-line deromaniser and romaniser; 14 word faults (6 of them diacritics whose prerequisites fail, after ASCII and after multi-byte characters) at every index of a 4-word list. Oracle: run is Err, the matching formatter does not panic, the reported rule group / line (alias kind / line, word) is the planted one and exists, the quoted line is the faulty line, and the caret line fits in [0, chars(line)+1]; a message that names a character of the word names the one under the caret. Non-trivial = error located at the planted position.".into();
    let mut a = Acc::default();
    for proj in base_projects() {
        for g in 0..proj.len() { for l in 0..proj[g].len() { for mode in 0..3 { for fault in RULE_FAULTS {
            let mut p: Vec<Vec<String>> = proj.iter().map(|x| x.iter().map(|s| strip(s)).collect()).collect();
            let (pl, _) = match mode { 0 => { p[g][l] = fault.to_string(); (l, 0) } 1 => { p[g].insert(l, fault.to_string()); (l, 0) } _ => { p[g].insert(l + 1, fault.to_string()); (l + 1, 0) } };
            let groups: Vec<RuleGroup> = p.iter().enumerate().map(|(i, rs)| RuleGroup { name: format!("g{}", i), rule: rs.clone(), description: String::new() }).collect();
            check_rule_fault(&groups, g, pl, fault, &mut a);
        } } } }
    }
    // decorated faults: on the second base project, every position, replacing the line
    let mut d = Acc::default();
    let mut n_decorated = 0usize;
    let proj = &base_projects()[1];
    for fault in RULE_FAULTS { for which in 0..3 {
        let Some(df) = decorate(fault, which) else { continue };
        n_decorated += 1;
        for g in 0..proj.len() { for l in 0..proj[g].len() {
            let mut p: Vec<Vec<String>> = proj.iter().map(|x| x.iter().map(|s| strip(s)).collect()).collect();
            p[g][l] = df.clone();
            let groups: Vec<RuleGroup> = p.iter().enumerate().map(|(i, rs)| RuleGroup { name: format!("g{}", i), rule: rs.clone(), description: String::new() }).collect();
            check_rule_fault(&groups, g, l, &df, &mut d);
        } }
    } }
    r.boxes.push(json!({"box": "rule faults respelt with letters that carry combining marks (ã, t͡s, n̩, d͡z) x positions", "decorated_faults": n_decorated, "cases": d.evals, "located_at_planted_line": d.located, "fault_did_not_trigger": d.not_triggered, "distinct_error_variants": d.variants.len()}));
    r.guard(d.located * 2 > d.evals, "more than half of the decorated faults are raised and located");
    a.evals += d.evals; a.located += d.located; a.viols.extend(std::mem::take(&mut d.viols));
    // misspelt feature names: the message of an unknown feature looks for the closest known spelling, so every known spelling x every single
    // edit at its ends / in its middle (a letter doubled, dropped, swapped with its neighbour) is planted as `p > [+name]` in the second base
    // project (first line of the second group) and as a deromaniser line `x > a:[+name]`: the error must still be shown, with its line
    let syn: Value = serde_json::from_str(&std::fs::read_to_string(format!("{}/fixtures/feature_synonyms.json", root())).unwrap_or_default()).unwrap_or(Value::Null);
    let mut names: Vec<String> = vec![];
    if let Some(o) = syn.as_object() { for (_, v) in o { for sp in v["spellings"].as_array().cloned().unwrap_or_default() { if let Some(t) = sp.as_str() { names.push(t.to_string()); } } } }
    names.sort(); names.dedup();
    let mut miss: Vec<String> = vec![];
    for nm in &names {
        let c: Vec<char> = nm.chars().collect();
        for i in 0..c.len() {
            let mut dbl = c.clone(); dbl.insert(i, c[i]); miss.push(dbl.iter().collect());
            if c.len() > 2 { let mut drop = c.clone(); drop.remove(i); miss.push(drop.iter().collect()); }
            if i + 1 < c.len() { let mut sw = c.clone(); sw.swap(i, i + 1); miss.push(sw.iter().collect()); }
        }
    }
    miss.sort(); miss.dedup(); miss.retain(|m| !names.contains(m));
    let mut mf = Acc::default();
    let mproj = &base_projects()[1];
    let (mut mal, mut mal_ok) = (0u64, 0u64);
    for m in &miss {
        let fault = format!("p > [+{}]", m);
        let mut p: Vec<Vec<String>> = mproj.iter().map(|x| x.iter().map(|s| strip(s)).collect()).collect();
        let g = p.len() - 1; p[g][0] = fault.clone();
        let groups: Vec<RuleGroup> = p.iter().enumerate().map(|(i, rs)| RuleGroup { name: format!("g{}", i), rule: rs.clone(), description: String::new() }).collect();
        check_rule_fault(&groups, g, 0, &fault, &mut mf);
        let afault = format!("x > a:[+{}]", m);
        let into = vec!["sh > ʃ".to_string(), afault.clone()];
        match check_alias_fault(&["sha".to_string()], &into, &[], &afault, 1, true) { Some(None) => { mal += 1; mal_ok += 1; } Some(Some(v)) => { mal += 1; mf.viols.push(v); } None => {} }
    }
    r.boxes.push(json!({"box": "misspelt feature names (every known spelling x letter doubled / dropped / swapped) as a rule fault and as a deromaniser fault", "known_spellings": names.len(), "misspellings": miss.len(), "rule_cases": mf.evals, "located_at_planted_line": mf.located, "fault_did_not_trigger": mf.not_triggered, "alias_cases": mal, "alias_located": mal_ok}));
    r.guard(mf.located > 1000 && mal_ok > 1000, "misspelt features: more than 1000 located as rule faults and as alias faults");
    a.evals += mf.evals + mal; a.located += mf.located + mal_ok; a.not_triggered += mf.not_triggered; a.viols.extend(std::mem::take(&mut mf.viols));

    r.boxes.push(json!({"box": "rule faults x positions", "cases": a.evals, "located_at_planted_line": a.located, "fault_did_not_trigger": a.not_triggered, "distinct_error_variants": a.variants.len(), "variants": a.variants}));
    r.guard(a.variants.len() >= 35, "at least 35 distinct rule error variants were provoked");
    r.guard(a.not_triggered * 20 < a.evals, "fewer than 5% of planted faults failed to trigger");
    // ---- alias faults
    let alias_faults_from = ["a >", "> x", "a:[+foo] > x", "a > x, y", "a:[+long > x", "[+voice > q", "a:[tone:12345] > x", "$ > x, y",
        // a diacritic its segment cannot take (two positions: the segment and the diacritic), alone, as the second diacritic, before a matrix
        "aʰ > ah", "a\u{303}ʰ > ah", "ʃaʰ:[+long] > x", "ɑ̪ > q"];
    // the last four: the fault comes after a precomposed letter (which word normalisation would expand to two characters)
    let alias_faults_into = ["x >", "> a", "x > a:[+foo]", "x > [+voice]", "x > a:[-long, +overlong]", "x > a:[-stress, +sec.stress]", "ã >", "ãõ > a:[+foo]", "ẽ > [+voice]", "ɚ > a, b", "ah > aʰ", "ah > a\u{303}ʰ", "x > ʃaʰ:[+long]", "q > ɑ̪"];
    let words: Vec<String> = vec!["pa.ta".into(), "xa".into()];
    let mut al_cases = 0u64; let mut al_ok = 0u64;
    for (is_into, faults) in [(false, &alias_faults_from[..]), (true, &alias_faults_into[..])] {
        for fault in faults { for pos in 0..3usize {
            let valid_into = vec!["q > k".to_string(), "w > t:[+long]".to_string()]; let valid_from = vec!["k > q".to_string(), "$ > *".to_string()];
            let (mut into, mut from) = (valid_into.clone(), valid_from.clone());
            if is_into { into.insert(pos, fault.to_string()); } else { from.insert(pos, fault.to_string()); }
            al_cases += 1;
            match check_alias_fault(&words, &into, &from, fault, pos, is_into) { Some(None) => al_ok += 1, Some(Some(v)) => r.viol(v), None => a.not_triggered += 1 }
        } }
    }
    r.boxes.push(json!({"box": "alias faults x positions", "cases": al_cases, "located": al_ok}));
    // ---- word faults
    // the last six: a diacritic whose prerequisites fail, after ASCII and after multi-byte characters (positions are character indices)
    let word_faults = ["p#a", "ˈ", "ːa", "a12345", "\u{303}a", "pa.%", "p(a", "a.ˌ", "aʰ", "ɑʰ", "tɑ̙t̙", "ˌsɛ.ˈlɑ̪", "ʃɑʰ", "ˈpɑ.tɑ̪"];
    let mut w_cases = 0u64; let mut w_ok = 0u64;
    for fault in word_faults { for pos in 0..4usize {
        let mut ws: Vec<String> = vec!["pa.ta".into(), "ˈta".into(), "a".into()];
        ws.insert(pos, fault.to_string());
        w_cases += 1;
        match check_word_fault(&ws, fault) { Some(None) => w_ok += 1, Some(Some(v)) => r.viol(v), None => a.not_triggered += 1 }
    } }
    r.boxes.push(json!({"box": "word faults x positions", "cases": w_cases, "located": w_ok}));
    r.evaluations = a.evals + al_cases + w_cases; r.transitions = r.evaluations * 2; r.validated = a.located + al_ok + w_ok; r.nontrivial = r.validated;
    r.states_count_override = Some(a.variants.len() as u64 + 2);
    r.sample(json!({"fault": "% > a", "planted": "Rule 2, Line 3 of project 2"}));
    for v in a.viols { r.viol(v); }
    r.finish()
}

pub fn replay(case: &Value) -> Result<String, String> {
    match case["kind"].as_str() {
        Some("rule") => {
            let groups: Vec<RuleGroup> = case["groups"].as_array().ok_or("groups")?.iter().enumerate().map(|(i, g)| RuleGroup { name: format!("g{}", i), rule: g.as_array().map(|v| v.iter().map(|x| x.as_str().unwrap_or("").to_string()).collect()).unwrap_or_default(), description: String::new() }).collect();
            let mut a = Acc::default();
            check_rule_fault(&groups, case["g"].as_u64().unwrap_or(0) as usize, case["l"].as_u64().unwrap_or(0) as usize, case["fault"].as_str().unwrap_or(""), &mut a);
            match a.viols.first() { Some(v) => Err(v.desc.clone()), None => Ok("error located at the planted line".into()) }
        }
        Some("alias") => {
            let sv = |k: &str| -> Vec<String> { case[k].as_array().map(|v| v.iter().map(|x| x.as_str().unwrap_or("").to_string()).collect()).unwrap_or_default() };
            let words = if case["words"].is_array() { sv("words") } else { vec!["pa.ta".to_string(), "xa".to_string()] };
            let is_into = case["is_into"].as_bool().unwrap_or_else(|| sv("into").len() > 2);
            match check_alias_fault(&words, &sv("into"), &sv("from"), case["fault"].as_str().unwrap_or(""), case["pos"].as_u64().unwrap_or(0) as usize, is_into) { Some(Some(v)) => Err(v.desc), Some(None) => Ok("alias error located at the planted line".into()), None => Ok("the fault did not raise an error".into()) }
        }
        Some("word") => {
            let ws: Vec<String> = case["words"].as_array().map(|v| v.iter().map(|x| x.as_str().unwrap_or("").to_string()).collect()).unwrap_or_default();
            match check_word_fault(&ws, case["fault"].as_str().unwrap_or("")) { Some(Some(v)) => Err(v.desc), Some(None) => Ok("word error names the faulty word".into()), None => Ok("the fault did not raise an error".into()) }
        }
        _ => Err("unknown case".into()),
    }
}
