//! C08 — every output word is well formed (invariant on every reachable state).
use crate::bfs::{self, Step};
use crate::model;
use crate::rulegen;
use crate::util::*;
use serde_json::{json, Value};

pub const SEEDS: [&str; 20] = ["pa", "ta.pi", "ˈpa.taˌki", "a", "t", "paː", "taːː.pa", "pa5.ta51", "pa1234.pi55.ta3", "pat.ta", "ˌtaˈpat", "i.a", "ma214.a51", "pa1234.ta5.ki21",
    // tones typed with zero digits (the reader drops them: 105 is 15, 50 is 5, 007 is 7)
    "ma105", "ta.ma50.ta", "sa10.ko007",
    // glottals (no place node) next to nasals and stops
    "san.ha", "am.ʔa", "anh"];

pub const RULES: [&str; 84] = [
    // deletion of segments, syllables, boundaries
    "a > *", "C > * / _#", "V > * / C_#", "% > * / _%", "$ > *", "$ > * / _C", "%:[-stress] > * / _%", "t > * / #_", "V > * / _V", "C > * / _$", "%=1 > * / 1_",
    // insertion of boundaries, segments, syllables, structures, variables
    "* > $ / V_C", "* > i / _#", "* > i / #_", "* > t / V_V", "* > ⟨ta⟩ / _#", "* > ⟨ti⟩:[+stress] / #_", "* > 1 / V=1_#", "* > 1$ / #_CV=1", "* > % / V_C", "* > $ / C_C", "* > 1 / %=1_", "* > t:[+long] / _#", "* > i$ / C_",
    // metathesis
    "$C > & / _#", "$C > &", "C$ > &", "V$ > &", "%% > &", "C...C > &", "CV > &", "C V > & / _#", "%...% > &", "$V > &",
    // substitution with structures, syllables, variables, length
    "a > ⟨ti⟩", "% > ⟨pa⟩ / _#", "C > ⟨ta⟩ / #_", "V > [+long]", "V:[+long] > [-long]", "V > [+overlong] / _#", "C=1 V=2 > 2 1", "V=1 C > 1:[+long] / _#", "a a > i", "p a > i", "t a t > i", "%=1 % > 1 1", "C V > i", "V C V > a", "% > ⟨i⟩:[tone:5] / #_",
    // stress and tone
    "% > [tone:51]", "%:[tone:51] > [tone:1234]", "% > [tone:50] / _#", "%:[tone:5] > [tone:105]", "$ > * / %:[tone:5]_", "V$ > * / _V", "% > [+stress] / #_", "%:[+stress] > [-stress]", "V > [+sec.stress] / _#", "% > [tone:0]", "$ > * / _V", "V > [tone:5] / _C",
    // place and nodes
    // structures that may come out empty: no items, an unbound variable, a variable bound elsewhere
    "% > ⟨⟩", "a > ⟨⟩", "* > ⟨⟩ / _#", "k > ⟨1⟩", "C > ⟨1⟩ / _#", "C=1 > ⟨1 a⟩", "* > ⟨1⟩ / C=1 _", "% > ⟨2⟩:[+stress]",
    "C > [-place] / _#", "[+cons] > [αPLACE] / _[+cons, αPLACE]", "t > [+lab]", "p > [-lab]", "V > [+round]", "[] > [-dor]", "C > [+phr]", "[+lab] > [-lab, -cor, -dor, -phr]", "V > [αdor] / _[αdor]",
    // whole-place alphas bound on segments that may have no place at all (glottals), and place removed piece by piece
    "[+nasal] > [αPLACE] / _C:[αPLACE]", "C > [αPLACE] / _[αPLACE]", "[] > [αlab, βcor] / _[αlab, βcor]", "C > [-cor] / _#", "[+son] > [-lab, -dor]", "[αPLACE] > [αPLACE]",
];

/// the invariant of the property statement
pub fn well_formed(w: &CW) -> Option<(String, String)> {
    if w.is_empty() { return Some(("no-syllable".into(), "the word has no syllable".into())); }
    for (i, sy) in w.iter().enumerate() {
        if sy.segs.is_empty() { return Some(("empty-syllable".into(), format!("syllable {} of {} is empty", i + 1, w.len()))); }
        if sy.tone >= 10000 || (sy.tone != 0 && sy.tone.to_string().contains('0')) { return Some(("tone".into(), format!("tone {} of syllable {} is not at most four non-zero digits", sy.tone, i + 1))); }
        for b in &sy.segs { if let Err(e) = model::well_formed(*b) { return Some(("segment-bundle".into(), e)); } }
    }
    None
}

pub fn seeds() -> Vec<CW> {
    SEEDS.iter().map(|t| cw_of(&asca::verif::parse_word(t, None).expect("seed parses"))).collect()
}

fn replay_path(seed: &CW, acts: &[Vec<String>]) -> Vec<Result<CW, String>> {
    let mut cur = seed.clone();
    let mut out = vec![];
    for a in acts {
        match bfs::step(999, a, &cur) { Step::Ok(w) => { cur = w.clone(); out.push(Ok(w)); } Step::Err(e) => { out.push(Err(e)); break; } Step::Crash(_, d) => { out.push(Err(d)); break; } }
    }
    out
}

pub fn run() -> i32 {
    let mut r = Report::new("C08");
    let thorough = r.thorough();
    r.rule = "explicit-state BFS: states = structural words (all syllables, segments as feature bundles, stress, tone; nothing abstracted), actions = one rule each from an alphabet covering every structure-changing path (segment / syllable / boundary deletion, insertion of boundaries, segments, syllables, structures and variables, metathesis with boundaries, substitution by structures and variables, length, stress, tone, node and place changes), transition = the real Rule::apply; invariant of the property evaluated on every reachable state. Words that enter through a deromaniser (`q > S:[M]`, `+q > [M]` for every node / feature / length / stress / tone modifier M) must be well formed as read. Second action family: every rule of rulegen(3) from the seeds (depth 1; thorough: depth 2 over rulegen(2)). Non-trivial = distinct states other than the seeds.".into();
    let seeds = seeds();
    let actions: Vec<Vec<String>> = RULES.iter().map(|s| vec![s.to_string()]).collect();
    let depth = if thorough { 4 } else { 2 };
    let no_edge = |_: &CW, _: usize, _: &Step| -> Vec<Viol> { vec![] };
    let (g, viols) = bfs::explore(&seeds, &actions, 8, depth, 12, 8, &no_edge, &well_formed);
    r.boxes.push(json!({"box": format!("hand alphabet: {} rules, depth {}", RULES.len(), depth), "seeds": seeds.len(), "states": g.states.len(), "states_per_depth": g.per_depth, "transitions": g.transitions, "err_edges": g.err_edges, "crash_edges": g.crash_edges, "self_loops": g.self_loops, "not_expanded_by_size_constraint": g.pruned, "ill_formed_states": viols.len()}));
    r.guard(g.per_depth.len() as u8 > depth.min(2) && g.states.len() > 500, "BFS reached the target depth and > 500 states");
    r.guard(g.crash_edges * 50 < g.transitions, "fewer than 2% of the edges crash");
    for (sid, v) in &viols {
        let acts = g.path(*sid);
        let root = g.root(*sid);
        let key = format!("{}|{}|{}", v.key, SEEDS_TEXT(root, &seeds), acts.iter().map(|a| RULES[*a as usize]).collect::<Vec<_>>().join(" ;; "));
        // classify by the last rule on the shortest path (the transition that produced the ill-formed state)
        let last = acts.last().map(|a| RULES[*a as usize]).unwrap_or("<seed>");
        let parent = g.parent[*sid as usize].0;
        let parent_ok = parent == u32::MAX || well_formed(&g.states[parent as usize]).is_none();
        let short = format!("{}|{}|{}", v.key, last, if parent_ok { "from-well-formed" } else { "from-ill-formed" });
        let _ = key;
        r.viol(Viol { key: short, desc: format!("{}: /{}/ after [{}] from /{}/", v.desc, show_cw(&g.states[*sid as usize]), acts.iter().map(|a| RULES[*a as usize]).collect::<Vec<_>>().join(" ;; "), show_cw(&g.states[root as usize])),
            case: json!({"seed": cw_json(&g.states[root as usize]), "rules": acts.iter().map(|a| RULES[*a as usize]).collect::<Vec<_>>()}) });
    }
    // ---- words that enter through a deromaniser: every output form `S:[M]` (segment + one modifier) and `+q > [M]` (payload added to
    // the previous segment) over all node / feature / length / stress / tone modifiers; whatever the reader returns must be well formed
    let mut mods: Vec<String> = vec![];
    for n in ["lab", "cor", "dor", "phr", "place"] { mods.push(format!("+{}", n)); mods.push(format!("-{}", n)); }
    for f in model::FEATS.iter() { mods.push(format!("+{}", f.0)); mods.push(format!("-{}", f.0)); }
    for x in ["+long", "-long", "+overlong", "+stress", "-stress", "+sec.stress", "-sec.stress", "+long, +overlong", "-long, +overlong"] { mods.push(x.to_string()); }
    for t in ["5", "51", "1234", "12345", "105", "50", "007", "0", "65535", "70000", "99999"] { mods.push(format!("tone: {}", t)); }
    let bases = ["a", "t", "p", "k", "ħ", "h", "i"];
    let mut alias_cases: Vec<(String, Vec<&str>)> = vec![];
    for m in &mods { for b in bases { alias_cases.push((format!("q > {}:[{}]", b, m), vec!["q", "paq", "ta.q5", "ˈqq"])); } alias_cases.push((format!("+q > [{}]", m), vec!["aq", "tq", "pq.kq", "ħq", "taːq", "hq5"])); }
    let mut d_ok = 0u64; let mut d_err = 0u64; let mut d_crash = 0u64; let mut dv: Vec<Viol> = vec![];
    for (line, ws) in &alias_cases {
        let al = match guarded(500_000, || asca::verif::compile_aliases(&[line.clone()], &[])) { Out::Ok(Ok(a)) => a, Out::Ok(Err(_)) => { d_err += 1; continue; } _ => { d_crash += 1; continue; } };
        for w in ws {
            match guarded(500_000, || asca::verif::parse_word(w, Some(&al)).map(|x| cw_of(&x))) {
                Out::Ok(Ok(cw)) => { d_ok += 1; if let Some((k, d)) = well_formed(&cw) { dv.push(Viol { key: format!("deromaniser|{}|{}", k, line), desc: format!("{}: typing `{}` with deromaniser `{}` is read as /{}/", d, w, line, show_cw(&cw)), case: json!({"alias": line, "word": w}) }); } }
                Out::Ok(Err(_)) => d_err += 1,
                _ => d_crash += 1,
            }
        }
    }
    r.boxes.push(json!({"box": "words read through a deromaniser (segment + modifier, plus-payload)", "alias_lines": alias_cases.len(), "words_read": d_ok, "rejected": d_err, "crashed (C02)": d_crash, "ill_formed": dv.len()}));
    r.guard(d_ok > 500, "deromaniser box: more than 500 words read");
    for v in dv { r.viol(v); }
    let mut states = g.states.len() as u64; let mut trans = g.transitions;
    // second family: the generated grammar from the seeds
    let n = if thorough { 3 } else { 3 };
    let gen: Vec<Vec<String>> = rulegen::rulegen(n).into_iter().map(|x| vec![x.text()]).collect();
    let d2 = 1;
    let (g2, v2) = bfs::explore(&seeds, &gen, 9, d2, 12, 8, &no_edge, &well_formed);
    r.boxes.push(json!({"box": format!("rulegen({}) as alphabet, depth {}", n, d2), "actions": gen.len(), "states": g2.states.len(), "transitions": g2.transitions, "err_edges": g2.err_edges, "crash_edges": g2.crash_edges, "ill_formed_states": v2.len()}));
    for (sid, v) in &v2 {
        let acts = g2.path(*sid); let root = g2.root(*sid);
        let rules: Vec<String> = acts.iter().map(|a| gen[*a as usize][0].clone()).collect();
        r.viol(Viol { key: format!("{}|{}|{}", v.key, rules.last().cloned().unwrap_or_default(), "from-well-formed"), desc: format!("{}: /{}/ after [{}] from /{}/", v.desc, show_cw(&g2.states[*sid as usize]), rules.join(" ;; "), show_cw(&g2.states[root as usize])), case: json!({"seed": cw_json(&g2.states[root as usize]), "rules": rules}) });
    }
    if thorough {
        // depth 2 with the small grammar on top of every depth-2 state of the hand alphabet is too large; chain rulegen(2) twice instead
        let gen2: Vec<Vec<String>> = rulegen::rulegen(2).into_iter().map(|x| vec![x.text()]).collect();
        let (g3, v3) = bfs::explore(&seeds, &gen2, 10, 3, 12, 8, &no_edge, &well_formed);
        r.boxes.push(json!({"box": "rulegen(2) as alphabet, depth 3", "actions": gen2.len(), "states": g3.states.len(), "states_per_depth": g3.per_depth, "transitions": g3.transitions, "err_edges": g3.err_edges, "crash_edges": g3.crash_edges, "ill_formed_states": v3.len()}));
        for (sid, v) in &v3 {
            let acts = g3.path(*sid); let root = g3.root(*sid);
            let rules: Vec<String> = acts.iter().map(|a| gen2[*a as usize][0].clone()).collect();
            let parent = g3.parent[*sid as usize].0;
            let parent_ok = parent == u32::MAX || well_formed(&g3.states[parent as usize]).is_none();
            r.viol(Viol { key: format!("{}|{}|{}", v.key, rules.last().cloned().unwrap_or_default(), if parent_ok { "from-well-formed" } else { "from-ill-formed" }), desc: format!("{}: /{}/ after [{}] from /{}/", v.desc, show_cw(&g3.states[*sid as usize]), rules.join(" ;; "), show_cw(&g3.states[root as usize])), case: json!({"seed": cw_json(&g3.states[root as usize]), "rules": rules}) });
        }
        states += g3.states.len() as u64; trans += g3.transitions;
    }
    states += g2.states.len() as u64; trans += g2.transitions;
    r.states_count_override = Some(states); r.transitions = trans; r.evaluations = trans; r.validated = states; r.nontrivial = states.saturating_sub(seeds.len() as u64);
    r.sample(json!({"seed": SEEDS[2], "path": [RULES[11], RULES[24]], "states": replay_path(&seeds[2], &[vec![RULES[11].to_string()], vec![RULES[24].to_string()]]).iter().map(|x| x.as_ref().map(show_cw).unwrap_or_else(|e| e.clone())).collect::<Vec<_>>()}));
    r.finish()
}

#[allow(non_snake_case)]
fn SEEDS_TEXT(root: u32, seeds: &[CW]) -> String { show_cw(&seeds[root as usize]) }

pub fn replay(case: &Value) -> Result<String, String> {
    if let (Some(line), Some(w)) = (case["alias"].as_str(), case["word"].as_str()) {
        let al = match guarded(500_000, || asca::verif::compile_aliases(&[line.to_string()], &[])) { Out::Ok(Ok(a)) => a, _ => return Ok("the alias is rejected".into()) };
        return match guarded(500_000, || asca::verif::parse_word(w, Some(&al)).map(|x| cw_of(&x))) { Out::Ok(Ok(cw)) => match well_formed(&cw) { Some((_, d)) => Err(format!("{}: `{}` with `{}` is read as /{}/", d, w, line, show_cw(&cw))), None => Ok(format!("read as /{}/, well formed", show_cw(&cw))) }, Out::Ok(Err(e)) => Ok(format!("rejected: {:?}", e)), o => Err(o.crash_desc().unwrap()) };
    }
    let seed = cw_from_json(&case["seed"]).ok_or("no seed")?;
    let rules: Vec<Vec<String>> = case["rules"].as_array().ok_or("no rules")?.iter().map(|x| vec![x.as_str().unwrap_or("").to_string()]).collect();
    let states = replay_path(&seed, &rules);
    let mut trace = vec![show_cw(&seed)];
    for s in &states {
        match s { Ok(w) => { trace.push(show_cw(w)); if let Some((k, d)) = well_formed(w) { return Err(format!("{} ({}) :: {}", d, k, trace.join(" => "))); } } Err(e) => return Ok(format!("path ends in error {} :: {}", e, trace.join(" => "))) }
    }
    Ok(format!("all states well formed :: {}", trace.join(" => ")))
}
