//! C20 — a `seq` project is the composition of its stages, as configured.
use crate::cli::*;
use crate::formats;
use crate::util::*;
use asca::RuleGroup;
use serde_json::{json, Value};

const RULE_FILES: [(&str, &str); 4] = [
    ("r1", "@ Alpha\n    p > b\n# voicing\n\n@ Beta\n    t > d / V_V\n\n@ Gamma\n    a > e / _#\n# final raising\n"),
    // empty lines directly after a group's name and between its sub rules (allowed by the manual; they do not end the group)
    // the group names of this file start with non-ASCII capitals (Ð, Ē, Þ): "case insensitive" is not an ASCII-only notion
    ("r2", "@ Ðelta\n\n    b > β / V_V\n@ Ēps\n    d > ð\n\n    ð > z / _#\n   \n@ Þeta\n    e > i\n"),
    ("r3", "@ Final Devoicing\n    [+voice] > [-voice] / _#\n@ hap(lo)logy\n    %=1 > * / 1_\n@ STRESS\n    % > [+stress] / #_\n"),
    // a rule file that contributes no rule at all: a placeholder group and comments (used in the chain and alias boxes only)
    ("r0", "@ Placeholder\n# nothing decided yet\n\n"),
];
const WORD_FILES: [(&str, &str); 2] = [("w1", "pa.ta\nta.pa.ta   # gloss\n\nqa.ta.ta"), ("w2", "ba.da\n# only a comment\na.pa")];
const ALIAS: &str = "@into\n    q > k\n";

/// (text after the file name, the reference effect on the group list)
#[derive(Clone, Debug)]
enum Filter { None, Without(Vec<&'static str>), Only(Vec<&'static str>) }
fn filters_for(file: usize) -> Vec<(String, Filter)> {
    let (a, b, c) = match file { 0 => ("Alpha", "Beta", "Gamma"), 1 => ("Ðelta", "Ēps", "Þeta"), _ => ("Final Devoicing", "hap(lo)logy", "STRESS") };
    let up = |s: &str| s.to_uppercase(); let lo = |s: &str| s.to_lowercase();
    vec![
        (String::new(), Filter::None),
        (format!(" ! {{\"{}\"}}", lo(a)), Filter::Without(vec![a])),
        (format!(" ! {{\"{}\", \"{}\"}}", up(b), a), Filter::Without(vec![b, a])),
        (format!(" ~ {{\"{}\"}}", up(c)), Filter::Only(vec![c])),
        (format!(" ~ {{\"{}\", \"{}\"}}", lo(c), up(a)), Filter::Only(vec![c, a])),
    ]
}
fn apply_filter(groups: &[RuleGroup], f: &Filter) -> Vec<RuleGroup> {
    match f {
        Filter::None => groups.to_vec(),
        Filter::Without(names) => groups.iter().filter(|g| !names.iter().any(|n| n.to_lowercase() == g.name.to_lowercase())).cloned().collect(),
        Filter::Only(names) => names.iter().filter_map(|n| groups.iter().find(|g| g.name.to_lowercase() == n.to_lowercase()).cloned()).collect(),
    }
}

#[derive(Clone, Debug)]
struct Tag { name: String, from: Option<usize>, words: Vec<usize>, alias: bool, entries: Vec<(usize, usize)> } // entries: (rule file, filter index)

fn config_text(tags: &[Tag], order: &[usize]) -> String {
    let mut s = String::from("# generated config\n");
    for &i in order {
        let t = &tags[i];
        s += &format!("@{}", t.name);
        if let Some(f) = t.from { s += &format!(" %{}", tags[f].name); }
        if t.alias { s += " $al"; }
        if !t.words.is_empty() { s += &format!(" [{}]", t.words.iter().map(|w| format!("\"{}\"", WORD_FILES[*w].0)).collect::<Vec<_>>().join(", ")); }
        s += ":\n";
        s += &t.entries.iter().map(|(f, fi)| format!("    \"{}\"{}", RULE_FILES[*f].0, filters_for(*f)[*fi].0)).collect::<Vec<_>>().join(",\n");
        s += "\n\n";
    }
    s
}

fn has_cycle(tags: &[Tag], i: usize) -> bool {
    let mut seen = vec![false; tags.len()]; let mut cur = i;
    while let Some(f) = tags[cur].from { if seen[f] { return true; } seen[f] = true; cur = f; }
    false
}

/// reference: final words of tag i (None = some stage fails in the library)
fn reference(tags: &[Tag], i: usize) -> Option<Vec<String>> {
    let t = &tags[i];
    let mut words: Vec<String> = match t.from { Some(f) => reference(tags, f)?, None => vec![] };
    for w in &t.words { if !words.is_empty() { words.push(String::new()); } words.extend(formats::parse_wsca(WORD_FILES[*w].1)); }
    let into: Vec<String> = if t.alias { formats::parse_alias(ALIAS).0 } else { vec![] };
    for (n, (f, fi)) in t.entries.iter().enumerate() {
        let groups = apply_filter(&formats::parse_rsca(RULE_FILES[*f].1), &filters_for(*f)[*fi].1);
        // the deromaniser reads the tag's input, i.e. it is in force for the first rule file only
        let none: Vec<String> = vec![];
        match guarded(5_000_000, || asca::run(&groups, &words, if n == 0 { &into } else { &none }, &[])) { Out::Ok(Ok(v)) => words = v, _ => return None }
    }
    Some(words)
}
/// the words after each entry of tag i (None = some stage fails in the library)
fn reference_stages(tags: &[Tag], i: usize) -> Option<Vec<Vec<String>>> {
    let t = &tags[i];
    let mut words: Vec<String> = match t.from { Some(f) => reference(tags, f)?, None => vec![] };
    for w in &t.words { if !words.is_empty() { words.push(String::new()); } words.extend(formats::parse_wsca(WORD_FILES[*w].1)); }
    let into: Vec<String> = if t.alias { formats::parse_alias(ALIAS).0 } else { vec![] };
    let mut out = vec![];
    for (n, (f, fi)) in t.entries.iter().enumerate() {
        let groups = apply_filter(&formats::parse_rsca(RULE_FILES[*f].1), &filters_for(*f)[*fi].1);
        let none: Vec<String> = vec![];
        match guarded(5_000_000, || asca::run(&groups, &words, if n == 0 { &into } else { &none }, &[])) { Out::Ok(Ok(v)) => words = v, _ => return None }
        out.push(words.clone());
    }
    Some(out)
}
fn history(tags: &[Tag], i: usize) -> Vec<RuleGroup> {
    let mut h = match tags[i].from { Some(f) => history(tags, f), None => vec![] };
    for (f, fi) in &tags[i].entries { h.extend(apply_filter(&formats::parse_rsca(RULE_FILES[*f].1), &filters_for(*f)[*fi].1)); }
    h
}
fn nonblank(s: &str) -> Vec<String> { s.lines().map(|l| l.to_string()).filter(|l| !l.is_empty()).collect() }

fn setup(sb: &Sandbox, tags: &[Tag], order: &[usize]) {
    for (n, t) in RULE_FILES { sb.write(&format!("{}.rsca", n), t); }
    for (n, t) in WORD_FILES { sb.write(&format!("{}.wsca", n), t); }
    sb.write("al.alias", ALIAS);
    sb.write("config.asca", &config_text(tags, order));
}

#[derive(Default)]
struct Acc { evals: u64, procs: u64, ok: u64, rejected_ok: u64, viols: Vec<Viol> }
impl Acc { fn merge(&mut self, o: Acc) { self.evals += o.evals; self.procs += o.procs; self.ok += o.ok; self.rejected_ok += o.rejected_ok; self.viols.extend(o.viols); } }

fn out_file(sb: &Sandbox, tag: &str) -> Option<(String, String)> {
    let files = sb.list(&format!("out/{}", tag));
    if files.len() != 1 { return None; }
    Some((files[0].clone(), sb.read(&format!("out/{}/{}", tag, files[0]))?))
}

fn config_case(n: usize, tags: &[Tag], order: &[usize], a: &mut Acc) {
    let cfg = config_text(tags, order);
    let key = |what: &str| format!("{}|{}", what, cfg.replace('\n', " ").split_whitespace().collect::<Vec<_>>().join(" "));
    let case = || json!({"config": cfg});
    let sb = Sandbox::new("c20", n);
    setup(&sb, tags, order);
    let invalid = (0..tags.len()).any(|i| has_cycle(tags, i));
    a.evals += 1;
    let o = run_cli(&sb.dir, &["seq", ".", "-o", "-y"]); a.procs += 1;
    if o.timed_out { a.viols.push(Viol { key: key("timeout"), desc: format!("`asca seq` did not finish within 20 s on: {}", cfg), case: case() }); return; }
    if invalid {
        let wrote = !sb.list("out").is_empty();
        if (o.code != Some(0) || o.stderr.contains("Error") || o.stdout.contains("Error")) && !wrote { a.rejected_ok += 1; } else { a.viols.push(Viol { key: key("cycle-not-rejected"), desc: format!("cyclic config accepted (exit {:?}, out/ = {:?}): {}", o.code, sb.list("out"), cfg), case: case() }); }
        return;
    }
    // valid config: every tag's output equals the reference composition
    let mut all_files: Vec<(String, String)> = vec![];
    for (i, t) in tags.iter().enumerate() {
        let want = reference(tags, i);
        let got = out_file(&sb, &t.name);
        match (&want, &got) {
            (Some(w), Some((_, g))) if nonblank(g) == w.iter().filter(|x| !x.is_empty()).cloned().collect::<Vec<_>>() => { a.ok += 1; all_files.push((t.name.clone(), g.clone())); }
            (None, _) => { a.ok += 1; }
            _ => { a.viols.push(Viol { key: key(&format!("tag-output|{}", t.name)), desc: format!("tag `{}`: out/ has {:?}, the composition of its stages gives {:?} (exit {:?}; stdout {}; stderr {}); config: {}", t.name, got, want, o.code, o.stdout.replace('\n', " | "), o.stderr.replace('\n', " | "), cfg), case: case() }); return; }
        }
    }
    // a second run over the same directory with `-y`, after stale lines were appended to every output file: the files are overwritten
    // with exactly the same words
    if !all_files.is_empty() {
        for (tname, _) in &all_files { if let Some((f, g)) = out_file(&sb, tname) { sb.write(&format!("out/{}/{}", tname, f), &format!("{}\nstale.line\nanother.stale.line", g)); } }
        a.evals += 1;
        let o2 = run_cli(&sb.dir, &["seq", ".", "-o", "-y"]); a.procs += 1;
        let same = all_files.iter().all(|(tname, g)| out_file(&sb, tname).map(|x| x.1) == Some(g.clone()));
        if same { a.ok += 1; } else { a.viols.push(Viol { key: key("rerun-overwrite"), desc: format!("a second `seq -o -y` over existing (longer) output files did not leave the same words (exit {:?}); config: {}", o2.code, cfg), case: case() }); }
    }
    // each tag alone in a fresh copy (cold cache) gives the same file
    for (i, t) in tags.iter().enumerate() {
        if reference(tags, i).is_none() { continue; }
        let sb2 = Sandbox::new("c20s", n * 8 + i);
        setup(&sb2, tags, order);
        a.evals += 1;
        let o2 = run_cli(&sb2.dir, &["seq", ".", "-t", &t.name, "-o", "-y"]); a.procs += 1;
        let alone = out_file(&sb2, &t.name).map(|x| x.1);
        let together = all_files.iter().find(|x| x.0 == t.name).map(|x| x.1.clone());
        if alone == together && alone.is_some() { a.ok += 1; } else { a.viols.push(Viol { key: key(&format!("alone-vs-all|{}", t.name)), desc: format!("tag `{}` run alone writes {:?}, run with all tags {:?} (exit {:?}); config: {}", t.name, alone, together, o2.code, cfg), case: case() }); }
        // `-i`: one numbered file per entry, each equal to the reference after that entry
        if let Some(stages) = reference_stages(tags, i) {
            let sb3 = Sandbox::new("c20i", n * 8 + i);
            setup(&sb3, tags, order);
            a.evals += 1;
            let _ = run_cli(&sb3.dir, &["seq", ".", "-t", &t.name, "-o", "-y", "-i"]); a.procs += 1;
            let files = sb3.list(&format!("out/{}", t.name));
            let mut ok = files.len() == stages.len();
            for (k, st) in stages.iter().enumerate() {
                let f = files.iter().find(|f| f.starts_with(&format!("{}_", k + 1)));
                let got = f.and_then(|f| sb3.read(&format!("out/{}/{}", t.name, f)));
                if got.as_ref().map(|g| nonblank(g)) != Some(st.iter().filter(|x| !x.is_empty()).cloned().collect::<Vec<_>>()) { ok = false; }
            }
            if ok { a.ok += 1; } else { a.viols.push(Viol { key: key(&format!("all-steps|{}", t.name)), desc: format!("tag `{}` with -i: files {:?} do not match the {} reference stages {:?}; config: {}", t.name, files, stages.len(), stages, cfg), case: case() }); }
        }
        // conv tag --recurse: rule history and, when no words were added mid-pipeline, the same words through the library
        a.evals += 1;
        let o3 = run_cli(&sb2.dir, &["conv", "tag", &t.name, "-p", ".", "-r", "-o", "hist.json"]); a.procs += 1;
        let j: Option<Value> = sb2.read("hist.json").and_then(|s| serde_json::from_str(&s).ok());
        let want_hist: Vec<Value> = history(tags, i).iter().map(|g| json!({"name": g.name, "rule": g.rule, "description": g.description})).collect();
        match &j {
            Some(j) if j["rules"].as_array() == Some(&want_hist) => {
                let mut mid_words = false; let mut cur = i; while let Some(f) = tags[cur].from { if !tags[cur].words.is_empty() { mid_words = true; } cur = f; }
                if !mid_words {
                    let groups: Vec<RuleGroup> = history(tags, i);
                    let words: Vec<String> = j["words"].as_array().map(|v| v.iter().map(|x| x.as_str().unwrap_or("").to_string()).collect()).unwrap_or_default();
                    let into: Vec<String> = j["into"].as_array().map(|v| v.iter().map(|x| x.as_str().unwrap_or("").to_string()).collect()).unwrap_or_default();
                    match guarded(5_000_000, || asca::run(&groups, &words, &into, &[])) {
                        Out::Ok(Ok(v)) if Some(v.iter().filter(|x| !x.is_empty()).cloned().collect::<Vec<_>>()) == together.as_ref().map(|t| nonblank(t)) => a.ok += 1,
                        other => a.viols.push(Viol { key: key(&format!("history-run|{}", t.name)), desc: format!("tag `{}`: running the exported history gives {:?}, the tag's file has {:?}", t.name, other, together), case: case() }),
                    }
                } else { a.ok += 1; }
            }
            other => a.viols.push(Viol { key: key(&format!("history|{}", t.name)), desc: format!("tag `{}`: `conv tag -r` exported rules {:?} (exit {:?}), the concatenated history is {:?}", t.name, other.as_ref().map(|x| x["rules"].clone()), o3.code, want_hist), case: case() }),
        }
    }
}

/// every forest of `%` references over four tags, declared in every order, one distinct entry per tag: only the
/// all-tags run is compared (one process per config), which is where the per-invocation cache is shared between tags
fn shape_configs() -> Vec<(Vec<Tag>, Vec<usize>)> {
    let names = ["alpha", "beta", "gamma", "delta"];
    let entries: [(usize, usize); 4] = [(0, 0), (1, 0), (2, 3), (0, 4)];
    let mut out = vec![];
    for code in 0..5usize.pow(4) {
        let mut q = code; let mut tags = vec![];
        for t in 0..4 { let c = q % 5; q /= 5; let from = if c == 0 { None } else { Some(c - 1) }; tags.push(Tag { name: names[t].to_string(), from, words: if from.is_none() { vec![0] } else { vec![] }, alias: from.is_none() && t % 2 == 1, entries: vec![entries[t]] }); }
        if (0..4).any(|i| tags[i].from == Some(i) || has_cycle(&tags, i)) { continue; }
        // depth >= 2 somewhere (shallower shapes are covered by the main box)
        if !(0..4).any(|i| tags[i].from.and_then(|f| tags[f].from).is_some()) { continue; }
        let mut perm: Vec<usize> = (0..4).collect();
        loop {
            out.push((tags.clone(), perm.clone()));
            let mut i = 3; while i > 0 && perm[i - 1] >= perm[i] { i -= 1; }
            if i == 0 { break; }
            let mut j = 3; while perm[j] <= perm[i - 1] { j -= 1; }
            perm.swap(i - 1, j); perm[i..].reverse();
        }
    }
    out
}
fn shape_case(n: usize, tags: &[Tag], order: &[usize], a: &mut Acc) {
    let cfg = config_text(tags, order);
    let sb = Sandbox::new("c20p", n);
    setup(&sb, tags, order);
    a.evals += 1;
    let o = run_cli(&sb.dir, &["seq", ".", "-o", "-y"]); a.procs += 1;
    for (i, t) in tags.iter().enumerate() {
        let Some(w) = reference(tags, i) else { continue };
        match out_file(&sb, &t.name) {
            Some((_, g)) if nonblank(&g) == w.iter().filter(|x| !x.is_empty()).cloned().collect::<Vec<_>>() => a.ok += 1,
            got => { a.viols.push(Viol { key: format!("shape|{}|{}", t.name, cfg.replace('\n', " ").split_whitespace().collect::<Vec<_>>().join(" ")), desc: format!("tag `{}` (all tags run together): out/ has {:?}, the composition of its stages gives {:?} (exit {:?}); config: {}", t.name, got, w, o.code, cfg), case: json!({"config": cfg, "shape": true}) }); return; }
        }
    }
    // `conv tag --recurse` of every pipeline tag (declaration orders: as numbered and reversed): the exported deromaniser is that of the
    // tag's OWN root (roots differ in their alias), and the exported project run through the library gives the tag's file
    let fwd: Vec<usize> = (0..tags.len()).collect(); let rev: Vec<usize> = (0..tags.len()).rev().collect();
    if order != fwd.as_slice() && order != rev.as_slice() { return; }
    for (i, t) in tags.iter().enumerate() {
        if t.from.is_none() { continue; }
        let Some(w) = reference(tags, i) else { continue };
        let mut root = i; while let Some(f) = tags[root].from { root = f; }
        a.evals += 1;
        let o3 = run_cli(&sb.dir, &["conv", "tag", &t.name, "-p", ".", "-r", "-o", &format!("hist_{}.json", t.name)]); a.procs += 1;
        let j: Option<Value> = sb.read(&format!("hist_{}.json", t.name)).and_then(|s| serde_json::from_str(&s).ok());
        let want_into: Vec<String> = if tags[root].alias { formats::parse_alias(ALIAS).0 } else { vec![] };
        let key = format!("shape-history|{}|{}", t.name, cfg.replace('\n', " ").split_whitespace().collect::<Vec<_>>().join(" "));
        match &j {
            Some(j) => {
                let into: Vec<String> = j["into"].as_array().map(|v| v.iter().map(|x| x.as_str().unwrap_or("").to_string()).collect()).unwrap_or_default();
                let words: Vec<String> = j["words"].as_array().map(|v| v.iter().map(|x| x.as_str().unwrap_or("").to_string()).collect()).unwrap_or_default();
                let groups: Vec<RuleGroup> = history(tags, i);
                let replay = guarded(5_000_000, || asca::run(&groups, &words, &into, &[]));
                let ok_replay = matches!(&replay, Out::Ok(Ok(v)) if v.iter().filter(|x| !x.is_empty()).cloned().collect::<Vec<_>>() == w.iter().filter(|x| !x.is_empty()).cloned().collect::<Vec<_>>());
                if into == want_into && ok_replay { a.ok += 1; } else { a.viols.push(Viol { key, desc: format!("tag `{}` (root `{}`): `conv tag -r` exported into-aliases {:?} (its root has {:?}); replaying the export gives {:?}, the tag's words are {:?}; config: {}", t.name, tags[root].name, into, want_into, replay.crash_desc(), w, cfg), case: json!({"config": cfg, "shape": true}) }); }
            }
            None => a.viols.push(Viol { key, desc: format!("tag `{}`: `conv tag -r` wrote no readable json (exit {:?}, stderr {}); config: {}", t.name, o3.code, o3.stderr.replace('\n', " | "), cfg), case: json!({"config": cfg, "shape": true}) }),
        }
    }
}

fn all_configs(max_tags: usize, max_entries: usize) -> Vec<(Vec<Tag>, Vec<usize>)> {
    let names = ["alpha", "beta", "gamma", "delta"];
    // per-tag choices: from (none or any tag), extra words (0/1), entries
    let mut entry_choices: Vec<Vec<(usize, usize)>> = vec![];
    let singles: Vec<(usize, usize)> = vec![(0, 0), (0, 1), (0, 4), (1, 2), (1, 3), (2, 3), (2, 4), (2, 0)];
    for s in &singles { entry_choices.push(vec![*s]); }
    if max_entries >= 2 { for (i, s) in singles.iter().enumerate() { for (j, t) in singles.iter().enumerate() { if (i + 3 * j) % 5 == 0 { entry_choices.push(vec![*s, *t]); } } } }
    let mut out = vec![];
    for n in 1..=max_tags {
        let per_tag: usize = (n + 1) * 2 * entry_choices.len();
        let total = per_tag.pow(n as u32);
        let stride = if total > 6000 { total / 6000 + 1 } else { 1 }; // large products are walked with a fixed stride (documented in evidence)
        let mut idx = 0;
        while idx < total {
            let mut q = idx; let mut tags = vec![];
            for t in 0..n {
                let c = q % per_tag; q /= per_tag;
                let from_c = c % (n + 1); let words_c = (c / (n + 1)) % 2; let ent = c / (2 * (n + 1));
                let from = if from_c == 0 { None } else { Some(from_c - 1) };
                let words = if from.is_none() { if words_c == 0 { vec![0] } else { vec![0, 1] } } else if words_c == 0 { vec![] } else { vec![1] };
                tags.push(Tag { name: names[t].to_string(), from, words, alias: from.is_none() && (t + ent) % 2 == 0, entries: entry_choices[ent].clone() });
            }
            let fwd: Vec<usize> = (0..n).collect(); let rev: Vec<usize> = (0..n).rev().collect();
            out.push((tags.clone(), fwd));
            if n > 1 && idx % 2 == 0 { out.push((tags, rev)); }
            idx += stride;
        }
    }
    out
}

/// one tag with a romanisation file that has both sections (the romaniser is not the inverse of the deromaniser: /d/ prints as `t`, /ð/ as `d`)
/// and two or three rule files in every order: the deromaniser reads the tag's input and the romaniser writes its output, so the tag's words
/// equal one library run of all its rules with both alias lists — what `conv tag` exports
const ALIAS2: &str = "@into\n    q > k\n@from\n    d > t\n    ð > d\n";
fn alias_stage_box(a: &mut Acc) {
    let mut orders: Vec<Vec<usize>> = vec![];
    for x in 0..4 { for y in 0..4 { if x != y { orders.push(vec![x, y]); for z in 0..4 { if z != x && z != y { orders.push(vec![x, y, z]); } } } } }
    for (n, (ord, wf)) in orders.iter().flat_map(|o| (0..2).map(move |w| (o.clone(), w))).enumerate() {
        let sb = Sandbox::new("c20a", n);
        for (nm, t) in RULE_FILES { sb.write(&format!("{}.rsca", nm), t); }
        for (nm, t) in WORD_FILES { sb.write(&format!("{}.wsca", nm), t); }
        sb.write("al2.alias", ALIAS2);
        let cfg = format!("@alpha $al2 [\"{}\"]:\n{}\n", WORD_FILES[wf].0, ord.iter().map(|f| format!("    \"{}\"", RULE_FILES[*f].0)).collect::<Vec<_>>().join(",\n"));
        sb.write("config.asca", &cfg);
        a.evals += 1;
        let o = run_cli(&sb.dir, &["seq", ".", "-o", "-y"]); a.procs += 1;
        let groups: Vec<RuleGroup> = ord.iter().flat_map(|f| formats::parse_rsca(RULE_FILES[*f].1)).collect();
        let words = formats::parse_wsca(WORD_FILES[wf].1);
        let (into, from) = formats::parse_alias(ALIAS2);
        let Out::Ok(Ok(one_shot)) = guarded(5_000_000, || asca::run(&groups, &words, &into, &from)) else { continue };
        let want: Vec<String> = one_shot.into_iter().filter(|x| !x.is_empty()).collect();
        let key = format!("alias-stages|{}", cfg.replace('\n', " ").split_whitespace().collect::<Vec<_>>().join(" "));
        match out_file(&sb, "alpha") {
            Some((_, g)) if nonblank(&g) == want => a.ok += 1,
            got => { a.viols.push(Viol { key: key.clone(), desc: format!("tag `alpha` with a romanisation file: `asca seq` wrote {:?}, one run of all its rules with the same aliases gives {:?} (exit {:?}, stderr {}); config: {}", got, want, o.code, o.stderr.replace('\n', " | "), cfg), case: json!({"config": cfg, "alias_stages": true}) }); continue; }
        }
        // and the export of the tag, run through the command line, gives the same words
        a.evals += 1;
        let _ = run_cli(&sb.dir, &["conv", "tag", "alpha", "-p", ".", "-o", "h.json"]); a.procs += 1;
        let _ = run_cli(&sb.dir, &["run", "-j", "h.json", "-o", "replay.wsca"]); a.procs += 1;
        match sb.read("replay.wsca") {
            Some(g) if nonblank(&g) == want => a.ok += 1,
            got => a.viols.push(Viol { key: format!("{}|export", key), desc: format!("`conv tag alpha` + `run -j` gives {:?}, `asca seq` / the library give {:?}; config: {}", got, want, cfg), case: json!({"config": cfg, "alias_stages": true}) }),
        }
    }
    cleanup("c20a");
}

/// pipelines in which the tags name DIFFERENT romanisation files: the root's file has only an `@into` section (how the lexicon is read), a
/// daughter's only a `@from` section (how the result is written). With these the stages compose exactly: the words `seq` writes for the leaf
/// equal one library run of the rule history with the root's deromaniser and the leaf's romaniser, and that is what `conv tag leaf -r` must export
fn pipeline_alias_box(a: &mut Acc) {
    const INTO_ONLY: &str = "@into\n    q > k\n    c > t\n";
    const FROM_ONLY: &str = "@from\n    ð > dh\n    β > bh\n";
    let words = "pa.ta\nqa.ca.ta\nca.pa.qa";
    let mut n = 0;
    // which tags name which file: (root, mid, leaf) in {none, into-only, from-only}; the deromaniser that counts is the root's, the romaniser the queried tag's
    for root_al in [0usize, 1] { for mid_al in [0usize, 2] { for leaf_al in [0usize, 2] { for (r_root, r_mid, r_leaf) in [(0usize, 1usize, 2usize), (1, 0, 2), (0, 2, 1)] { for order in [[0usize, 1, 2], [2, 1, 0]] {
        n += 1;
        let sb = Sandbox::new("c20q", n);
        for (nm, t) in RULE_FILES { sb.write(&format!("{}.rsca", nm), t); }
        sb.write("lex.wsca", words); sb.write("deroman.alias", INTO_ONLY); sb.write("roman.alias", FROM_ONLY);
        let al = |k: usize| match k { 1 => " $deroman", 2 => " $roman", _ => "" };
        let decl = [format!("@root{} [\"lex\"]:\n    \"{}\"\n", al(root_al), RULE_FILES[r_root].0), format!("@mid %root{}:\n    \"{}\"\n", al(mid_al), RULE_FILES[r_mid].0), format!("@leaf %mid{}:\n    \"{}\"\n", al(leaf_al), RULE_FILES[r_leaf].0)];
        let cfg: String = order.iter().map(|i| decl[*i].clone()).collect();
        sb.write("config.asca", &cfg);
        let o = run_cli(&sb.dir, &["seq", ".", "-o", "-y"]); a.procs += 1;
        let key = format!("pipeline-alias|{}", cfg.split_whitespace().collect::<Vec<_>>().join(" "));
        let (into, _) = formats::parse_alias(INTO_ONLY); let (_, from) = formats::parse_alias(FROM_ONLY);
        let none: Vec<String> = vec![];
        let ws = formats::parse_wsca(words);
        for (tag, files, tag_from) in [("root", vec![r_root], 0usize), ("mid", vec![r_root, r_mid], mid_al), ("leaf", vec![r_root, r_mid, r_leaf], leaf_al)] {
            // a romaniser in the middle of the chain is read back by the next stage as typed text: only the queried tag's own romaniser is claimed,
            // and only when no earlier stage of its chain has one
            if tag == "leaf" && mid_al == 2 { continue; }
            let groups: Vec<RuleGroup> = files.iter().flat_map(|f| formats::parse_rsca(RULE_FILES[*f].1)).collect();
            let Out::Ok(Ok(one)) = guarded(5_000_000, || asca::run(&groups, &ws, if root_al == 1 { &into } else { &none }, if tag_from == 2 { &from } else { &none })) else { continue };
            let want: Vec<String> = one.into_iter().filter(|x| !x.is_empty()).collect();
            a.evals += 1;
            match out_file(&sb, tag) {
                Some((_, g)) if nonblank(&g) == want => a.ok += 1,
                got => a.viols.push(Viol { key: format!("{}|seq|{}", key, tag), desc: format!("tag `{}`: `asca seq` wrote {:?}, one run of its rule history (root's deromaniser, its own romaniser) gives {:?} (exit {:?}, stderr {}); config: {}", tag, got, want, o.code, o.stderr.replace('\n', " | "), cfg), case: json!({"config": cfg, "alias_stages": true}) }),
            }
            a.evals += 1;
            let jf = format!("{}.json", tag); let rf = format!("replay_{}.wsca", tag);
            let _ = run_cli(&sb.dir, &["conv", "tag", tag, "-p", ".", "-r", "-o", &jf]); a.procs += 1;
            let _ = run_cli(&sb.dir, &["run", "-j", &jf, "-o", &rf]); a.procs += 1;
            match sb.read(&rf) {
                Some(g) if nonblank(&g) == want => a.ok += 1,
                got => a.viols.push(Viol { key: format!("{}|export|{}", key, tag), desc: format!("tag `{}`: `conv tag {} -r` + `run -j` gives {:?}, `asca seq` / the library give {:?}; exported json: {}; config: {}", tag, tag, got, want, sb.read(&jf).unwrap_or_default().split_whitespace().collect::<Vec<_>>().join(" "), cfg), case: json!({"config": cfg, "alias_stages": true}) }),
            }
        }
    } } } } }
    cleanup("c20q");
}

/// file names with a dot in them (`"st.1"`, `"lex.v2"`, `$al.x`): the extension may be left out, the rest of the name is the name. Decoy files
/// whose names are what remains when the last dotted part is cut off (`st.rsca`, `lex.wsca`, `al.alias`) lie next to them
fn dotted_names_box(a: &mut Acc) {
    let mut n = 0;
    for (f1, f2) in [(0usize, 1usize), (1, 0), (2, 0), (0, 2)] { for with_alias in [false, true] { for spelled_out in [false, true] {
        n += 1;
        let sb = Sandbox::new("c20d", n);
        sb.write("st.1.rsca", RULE_FILES[f1].1); sb.write("st.2.rsca", RULE_FILES[f2].1); sb.write("st.rsca", "@ decoy\n    a > o\n");
        sb.write("lex.v2.wsca", WORD_FILES[0].1); sb.write("lex.wsca", "decoy");
        sb.write("al.x.alias", ALIAS); sb.write("al.alias", "@into\n    p > x\n");
        let ext = |e: &str| if spelled_out { format!(".{}", e) } else { String::new() };
        let cfg = format!("@alpha{} [\"lex.v2{}\"]:\n    \"st.1{}\",\n    \"st.2{}\"\n", if with_alias { " $al.x" } else { "" }, ext("wsca"), ext("rsca"), ext("rsca"));
        sb.write("config.asca", &cfg);
        let o = run_cli(&sb.dir, &["seq", ".", "-o", "-y"]); a.procs += 1;
        let groups: Vec<RuleGroup> = [f1, f2].iter().flat_map(|f| formats::parse_rsca(RULE_FILES[*f].1)).collect();
        let words = formats::parse_wsca(WORD_FILES[0].1);
        let (into, from) = if with_alias { formats::parse_alias(ALIAS) } else { (vec![], vec![]) };
        let Out::Ok(Ok(one)) = guarded(5_000_000, || asca::run(&groups, &words, &into, &from)) else { continue };
        let want: Vec<String> = one.into_iter().filter(|x| !x.is_empty()).collect();
        a.evals += 1;
        match out_file(&sb, "alpha") {
            Some((_, g)) if nonblank(&g) == want => a.ok += 1,
            got => a.viols.push(Viol { key: format!("dotted-names|{}", cfg.split_whitespace().collect::<Vec<_>>().join(" ")), desc: format!("tag `alpha` names files with a dot in their names: `asca seq` wrote {:?}, its rule files applied to its word file give {:?} (exit {:?}, stdout {}, stderr {}); config: {}", got, want, o.code, o.stdout.replace('\n', " | "), o.stderr.replace('\n', " | "), cfg), case: json!({"config": cfg, "alias_stages": true}) }),
        }
    } } }
    cleanup("c20d");
}

/// tags are names: two tags that differ only in the case of a letter are two tags, in every lookup (`%proto`, `-t proto`, the cache of finished
/// tags), whichever is declared first and whether one tag or all are asked for
fn case_twin_tags_box(a: &mut Acc) {
    let decl = ["@Proto [\"w1\"]:\n    \"r1\"\n", "@proto [\"w2\"]:\n    \"r2\"\n", "@daughter %proto:\n    \"r3\"\n", "@Daughter %Proto:\n    \"r3\"\n"];
    let orders: [[usize; 4]; 4] = [[0, 1, 2, 3], [1, 0, 2, 3], [2, 3, 0, 1], [3, 2, 1, 0]];
    let mut n = 0;
    for order in orders { for only in [None, Some("daughter"), Some("Daughter"), Some("proto"), Some("Proto")] {
        n += 1;
        let sb = Sandbox::new("c20t", n);
        for (nm, t) in RULE_FILES { sb.write(&format!("{}.rsca", nm), t); }
        for (nm, t) in WORD_FILES { sb.write(&format!("{}.wsca", nm), t); }
        let cfg: String = order.iter().map(|i| decl[*i]).collect();
        sb.write("config.asca", &cfg);
        let mut args = vec!["seq", ".", "-o", "-y"]; if let Some(t) = only { args.extend(["-t", t]); }
        let o = run_cli(&sb.dir, &args); a.procs += 1;
        let lib = |files: &[usize], wf: usize| -> Option<Vec<String>> { let groups: Vec<RuleGroup> = files.iter().flat_map(|f| formats::parse_rsca(RULE_FILES[*f].1)).collect(); match guarded(5_000_000, || asca::run(&groups, &formats::parse_wsca(WORD_FILES[wf].1), &[], &[])) { Out::Ok(Ok(v)) => Some(v.into_iter().filter(|x| !x.is_empty()).collect()), _ => None } };
        for (tag, files, wf) in [("Proto", vec![0usize], 0usize), ("proto", vec![1], 1), ("daughter", vec![1, 2], 1), ("Daughter", vec![0, 2], 0)] {
            if let Some(t) = only { if t != tag { // a tag that was not asked for is not written
                if sb.list(&format!("out/{}", tag)).is_empty() { continue; }
                a.evals += 1; a.viols.push(Viol { key: format!("case-twin-tags|{}|-t {}|wrote {}", cfg.split_whitespace().collect::<Vec<_>>().join(" "), t, tag), desc: format!("`asca seq -t {}` wrote output for the tag `{}`; config: {}", t, tag, cfg), case: json!({"config": cfg, "alias_stages": true}) }); continue;
            } }
            let Some(want) = lib(&files, wf) else { continue };
            a.evals += 1;
            match out_file(&sb, tag) {
                Some((_, g)) if nonblank(&g) == want => a.ok += 1,
                got => a.viols.push(Viol { key: format!("case-twin-tags|{}|{}|{}", cfg.split_whitespace().collect::<Vec<_>>().join(" "), only.unwrap_or("all"), tag), desc: format!("tag `{}` (asked for: {}): `asca seq` wrote {:?}, its rule history applied to its own root's words gives {:?} (exit {:?}, stderr {}); config: {}", tag, only.unwrap_or("all tags"), got, want, o.code, o.stderr.replace('\n', " | "), cfg), case: json!({"config": cfg, "alias_stages": true}) }),
            }
        }
    } }
    cleanup("c20t");
}

/// a parent that fails when it is run: its daughters have nothing to start from, whether the daughter is asked for alone or all tags are run,
/// and whatever ran before in the same invocation - the answer for a tag does not depend on the company it is run in
fn failing_parent_box(a: &mut Acc) {
    let mut n = 0;
    for (d_words, order) in [(true, [0usize, 1, 2]), (true, [1, 2, 0]), (false, [0, 1, 2]), (true, [2, 1, 0])] {
        let decl = ["@proto [\"w1\"]:\n    \"bad\"\n".to_string(), format!("@west %proto{}:\n    \"r1\"\n", if d_words { " [\"w2\"]" } else { "" }), format!("@east %proto{}:\n    \"r2\"\n", if d_words { " [\"w2\"]" } else { "" })];
        let mut outs: Vec<(String, Vec<(String, Option<String>)>)> = vec![];
        for only in [None, Some("west"), Some("east")] {
            n += 1;
            let sb = Sandbox::new("c20f", n);
            for (nm, t) in RULE_FILES { sb.write(&format!("{}.rsca", nm), t); }
            for (nm, t) in WORD_FILES { sb.write(&format!("{}.wsca", nm), t); }
            sb.write("bad.rsca", "@ unbound\n    V > [Aback] / _ #\n");
            let cfg: String = order.iter().map(|i| decl[*i].clone()).collect();
            sb.write("config.asca", &cfg);
            let mut args = vec!["seq", ".", "-o", "-y"]; if let Some(t) = only { args.extend(["-t", t]); }
            let _ = run_cli(&sb.dir, &args); a.procs += 1;
            outs.push((only.unwrap_or("all").to_string(), ["west", "east"].iter().map(|t| (t.to_string(), out_file(&sb, t).map(|x| x.1))).collect()));
        }
        let cfg: String = order.iter().map(|i| decl[*i].clone()).collect();
        for (k, tag) in ["west", "east"].iter().enumerate() {
            a.evals += 1;
            let alone = &outs[1 + k].1[k].1; let together = &outs[0].1[k].1;
            if alone == together { a.ok += 1; } else {
                a.viols.push(Viol { key: format!("failing-parent|{}|{}", cfg.split_whitespace().collect::<Vec<_>>().join(" "), tag), desc: format!("tag `{}` under a parent that fails: `asca seq -t {}` wrote {:?}, `asca seq` for all tags wrote {:?} for it; config: {}", tag, tag, alone, together, cfg), case: json!({"config": cfg, "alias_stages": true}) });
            }
        }
    }
    cleanup("c20f");
}

/// chains root <- mid <- leaf in which root and mid list TWO rule files each (every ordered pair of the three files, no filter) and the leaf one;
/// declared forwards and backwards. These are the shapes in which the order of an ancestor's own entries matters to the rule history
fn chain_configs() -> Vec<(Vec<Tag>, Vec<usize>)> {
    let mut out = vec![];
    let pairs: Vec<(usize, usize)> = (0..3).flat_map(|a| (0..3).filter(move |b| *b != a).map(move |b| (a, b))).collect();
    for (ra, rb) in &pairs { for (ma, mb) in &pairs { for lf in 0..3 {
        let tags = vec![
            Tag { name: "root".into(), from: None, words: vec![0], alias: false, entries: vec![(*ra, 0), (*rb, 0)] },
            Tag { name: "mid".into(), from: Some(0), words: vec![], alias: false, entries: vec![(*ma, 0), (*mb, 0)] },
            Tag { name: "leaf".into(), from: Some(1), words: vec![], alias: false, entries: vec![(lf, 0)] },
        ];
        out.push((tags.clone(), vec![0, 1, 2])); out.push((tags, vec![2, 1, 0]));
    } } }
    // a rule file without any rule (index 3) among the entries of the middle tag, first or last
    for x in 0..3 { for ents in [vec![(x, 0), (3, 0)], vec![(3, 0), (x, 0)], vec![(x, 0), (3, 0), ((x + 1) % 3, 0)]] {
        let tags = vec![
            Tag { name: "root".into(), from: None, words: vec![0], alias: false, entries: vec![(0, 0), (1, 0)] },
            Tag { name: "mid".into(), from: Some(0), words: vec![], alias: false, entries: ents.clone() },
            Tag { name: "leaf".into(), from: Some(1), words: vec![], alias: false, entries: vec![(2, 0)] },
        ];
        out.push((tags.clone(), vec![0, 1, 2])); out.push((tags, vec![2, 1, 0]));
    } }
    out
}

/// for C10: the staged pipelines of the four-tag forests (every declaration order, all tags in one `asca seq` invocation) against the
/// library run of each tag's concatenated rule history. Returns (configs, processes, tag outputs that agree, violations)
pub fn staged_pipelines_for_c10() -> (usize, u64, u64, Vec<Viol>) {
    let mut shapes = shape_configs();
    let n_forests = shapes.len();
    shapes.extend(chain_configs());
    let mut t = Acc::default();
    par_fold(shapes.len(), 4, Acc::default, |n, a| {
        let (tags, order) = (&shapes[n].0, &shapes[n].1);
        let cfg = config_text(tags, order);
        let sb = Sandbox::new("c10p", n);
        setup(&sb, tags, order);
        a.evals += 1;
        let o = run_cli(&sb.dir, &["seq", ".", "-o", "-y"]); a.procs += 1;
        for (i, tg) in tags.iter().enumerate() {
            if tg.from.is_none() { continue; }
            // one-shot: the tag's whole rule history applied by the library to the root's words (with the root's deromaniser)
            let mut root = i; while let Some(f) = tags[root].from { root = f; }
            if tags.iter().enumerate().any(|(k, x)| !x.words.is_empty() && x.from.is_some() && { let mut c = i; let mut on_path = c == k; while let Some(f) = tags[c].from { c = f; if c == k { on_path = true; } } on_path }) { continue; } // extra words join mid-pipeline: not a pure R1;R2 composition
            let groups = history(tags, i);
            let words: Vec<String> = tags[root].words.iter().flat_map(|w| formats::parse_wsca(WORD_FILES[*w].1)).collect();
            let into: Vec<String> = if tags[root].alias { formats::parse_alias(ALIAS).0 } else { vec![] };
            let Out::Ok(Ok(one_shot)) = guarded(5_000_000, || asca::run(&groups, &words, &into, &[])) else { continue };
            let want: Vec<String> = one_shot.into_iter().filter(|x| !x.is_empty()).collect();
            // chains: what `conv tag --recurse` exports is that same history, and running the export gives the same words
            if n >= n_forests {
                let _ = run_cli(&sb.dir, &["conv", "tag", &tg.name, "-p", ".", "-r", "-o", &format!("hist_{}.json", tg.name)]); a.procs += 1;
                let j: Option<Value> = sb.read(&format!("hist_{}.json", tg.name)).and_then(|s| serde_json::from_str(&s).ok());
                let names = |v: &Value| -> Vec<String> { v["rules"].as_array().map(|x| x.iter().map(|g| g["name"].as_str().unwrap_or("").to_string()).collect()).unwrap_or_default() };
                let want_names: Vec<String> = groups.iter().map(|g| g.name.clone()).collect();
                let replay = j.as_ref().and_then(|j| { let gs: Vec<RuleGroup> = serde_json::from_value(j["rules"].clone()).ok()?; let ws: Vec<String> = serde_json::from_value(j["words"].clone()).ok()?; match guarded(5_000_000, || asca::run(&gs, &ws, &[], &[])) { Out::Ok(Ok(v)) => Some(v.into_iter().filter(|x| !x.is_empty()).collect::<Vec<_>>()), _ => None } });
                match &j {
                    Some(j) if names(j) == want_names && replay.as_ref() == Some(&want) => a.ok += 1,
                    other => a.viols.push(Viol { key: format!("seq-history|{}|{}", tg.name, cfg.replace('\n', " ").split_whitespace().collect::<Vec<_>>().join(" ")), desc: format!("tag `{}`: `conv tag --recurse` exported groups {:?}, the stages in order are {:?}; running the export gives {:?}, the staged result is {:?}; config: {}", tg.name, other.as_ref().map(names), want_names, replay, want, cfg), case: json!({"kind": "seq-history"}) }),
                }
            }
            match out_file(&sb, &tg.name) {
                Some((_, g)) if nonblank(&g) == want => a.ok += 1,
                got => a.viols.push(Viol { key: format!("seq-staged|{}|{}", tg.name, cfg.replace('\n', " ").split_whitespace().collect::<Vec<_>>().join(" ")), desc: format!("tag `{}`: `asca seq` (stages run one after the other on rendered words) wrote {:?}, one run of its whole rule history gives {:?} (exit {:?}, stderr {}); config: {}", tg.name, got, want, o.code, o.stderr.replace('\n', " | "), cfg), case: json!({"kind": "seq-staged"}) }),
            }
        }
    }, |a| t.merge(a));
    cleanup("c10p");
    // pipelines whose tags name different romanisation files (see `pipeline_alias_box`)
    let mut tp = Acc::default(); pipeline_alias_box(&mut tp); t.merge(tp);
    (shapes.len(), t.procs, t.ok, t.viols)
}

pub fn run() -> i32 {
    let mut r = Report::new("C20");
    if !cli_available() { r.machinery_errors.push(format!("{} not built", cli())); return r.finish(); }
    let thorough = r.thorough();
    let (mt, me) = if thorough { (3, 2) } else { (2, 1) };
    r.rule = format!("every config with 1..{} tags: `%` reference of each tag in {{none}} + all tags (so every chain, fork, forward reference, self-loop and longer cycle occurs), word lists on root tags (one or two files), extra word file on pipeline tags or not, {} rule-file entries per tag from 3 rule files of 3 named groups each with filter in {{none, !{{a}}, !{{b,a}}, ~{{c}}, ~{{c,a}}}} spelled with varying case, deromaniser-only alias on some root tags, tags declared in forward and reverse order; the real `asca seq -o -y` is run in a fresh directory and the single file under out/<tag>/ is compared (non-blank lines) with asca::run composed stage by stage by a reference that reads the same files with the harness's own readers; a second run with `-y` over the same directory, after stale lines were appended to every output file, must leave the same files; each tag is also run alone in a fresh copy (cold cache) and must write the same file, and with `-i` one numbered file per entry equal to the reference after that entry; `conv tag -r` must export the concatenated rule history, and running it through the library gives the same words when no words were added mid-pipeline; cyclic configs must be rejected without output within 20 s; plus every forest of depth >= 2 over four tags in all 24 declaration orders (all tags in one invocation, so the cache is shared; roots differ in their deromaniser, and `conv tag -r` of every pipeline tag must export its own root's); rule files contain empty lines after a group name and between sub rules. Non-trivial = comparisons that held on valid configs.", mt, me);
    r.assumptions.push("products larger than 6000 configs per tag count are walked with a fixed stride over the mixed-radix index (every choice of every dimension still occurs); the quick box (<= 2 tags, 1 entry) is complete".into());
    let mut configs = all_configs(mt, me);
    if !thorough { configs.extend(chain_configs()); }
    let mut t = Acc::default();
    par_fold(configs.len(), 2, Acc::default, |i, a| config_case(i, &configs[i].0, &configs[i].1, a), |a| t.merge(a));
    let mut tal = Acc::default();
    alias_stage_box(&mut tal);
    r.boxes.push(json!({"box": "one tag, romanisation file with both sections, two or three rule files in every order: seq == one library run == conv tag + run -j", "comparisons": tal.evals, "cli_processes": tal.procs, "held": tal.ok}));
    r.guard(tal.ok >= 80, "alias-stage box: at least 40 comparisons held");
    t.merge(tal);
    let mut tdn = Acc::default();
    dotted_names_box(&mut tdn);
    r.boxes.push(json!({"box": "rule, word and alias files with a dot in their names, extension left out or spelled out, next to decoys named by the cut-off stem", "comparisons": tdn.evals, "cli_processes": tdn.procs, "held": tdn.ok}));
    r.guard(tdn.evals >= 16, "dotted names box ran");
    t.merge(tdn);
    let mut tct = Acc::default();
    case_twin_tags_box(&mut tct);
    failing_parent_box(&mut tct);
    r.boxes.push(json!({"box": "tags that differ only in case (4 declaration orders x all / each single tag) and daughters of a parent that fails (alone vs all tags)", "comparisons": tct.evals, "cli_processes": tct.procs, "held": tct.ok}));
    r.guard(tct.ok >= 30, "case-twin / failing-parent boxes ran");
    t.merge(tct);
    let mut tpa = Acc::default();
    pipeline_alias_box(&mut tpa);
    r.boxes.push(json!({"box": "three-tag pipelines whose tags name different romanisation files (root: @into only, daughters: @from only): seq == one library run == conv tag -r + run -j, for every tag", "comparisons": tpa.evals, "cli_processes": tpa.procs, "held": tpa.ok}));
    r.guard(tpa.ok >= 100, "pipeline alias box: at least 100 comparisons held");
    t.merge(tpa);
    let shapes = shape_configs();
    let mut ts = Acc::default();
    par_fold(shapes.len(), 4, Acc::default, |i, a| shape_case(i, &shapes[i].0, &shapes[i].1, a), |a| ts.merge(a));
    r.boxes.push(json!({"box": "four-tag forests of depth >= 2 x all 24 declaration orders (all tags run together)", "configs": shapes.len(), "cli_processes": ts.procs, "tag_outputs_held": ts.ok}));
    r.guard(ts.ok > 1000, "shape box: more than 1000 tag outputs compared");
    t.merge(ts);
    cleanup("c20"); cleanup("c20s"); cleanup("c20i"); cleanup("c20p");
    let cyc = configs.iter().filter(|c| (0..c.0.len()).any(|i| has_cycle(&c.0, i))).count();
    r.boxes.push(json!({"box": "configs", "configs": configs.len(), "cyclic_configs": cyc, "comparisons": t.evals, "cli_processes": t.procs, "held": t.ok, "cyclic_rejected": t.rejected_ok}));
    r.guard(t.ok > 500 && t.rejected_ok > 50, "more than 500 comparisons held on valid configs and more than 50 cyclic configs were rejected");
    r.evaluations = t.evals; r.transitions = t.procs; r.validated = t.ok + t.rejected_ok; r.nontrivial = t.ok; r.states_count_override = Some(configs.len() as u64);
    r.sample(json!({"config": config_text(&configs[configs.len() / 2].0, &configs[configs.len() / 2].1)}));
    r.sample(json!({"config": config_text(&configs[configs.len() - 3].0, &configs[configs.len() - 3].1)}));
    for v in t.viols { r.viol(v); }
    r.finish()
}

pub fn replay(case: &Value) -> Result<String, String> {
    let cfg = case["config"].as_str().ok_or("config")?;
    if case["shape"].as_bool() == Some(true) {
        let shapes = shape_configs();
        let (i, c) = shapes.iter().enumerate().find(|(_, c)| config_text(&c.0, &c.1) == cfg).ok_or("config not in the shape box")?;
        let mut a = Acc::default();
        shape_case(i, &c.0, &c.1, &mut a);
        cleanup("c20p");
        return match a.viols.first() { Some(v) => Err(v.desc.clone()), None => Ok("every tag equals the composition of its stages".into()) };
    }
    for (mt, me) in [(2, 1), (3, 2)] {
        let configs = all_configs(mt, me);
        if let Some((i, c)) = configs.iter().enumerate().find(|(_, c)| config_text(&c.0, &c.1) == cfg) {
            let mut a = Acc::default();
            config_case(i, &c.0, &c.1, &mut a);
            cleanup("c20"); cleanup("c20s");
            return match a.viols.first() { Some(v) => Err(v.desc.clone()), None => Ok("seq output equals the composition of its stages".into()) };
        }
    }
    Err("config not in the enumerated space".into())
}
