//! C14 — segmental and suprasegmental changes do not leak into each other.
use crate::rulegen::ENV_ITEMS;
use crate::util::*;
use asca::verif as av;
use serde_json::{json, Value};

const S_IN: [&str; 9] = ["a", "t", "C", "V", "[+cons]", "[]", "{p,a}", "V:[+long]", "a:[-long]"];
const S_OUT: [&str; 6] = ["i", "t", "[+voice]", "[-hi]", "[-place]", "[+round]"];
const P_RULES: [&str; 27] = ["% > [+stress]", "% > [-stress]", "% > [+sec.stress]", "% > [-sec.stress]", "% > [tone:5]", "% > [tone:0]", "V > [+stress]", "C > [tone:51]", "a > [-stress, tone:5]", "%:[+stress] > [-stress]",
    "V:[+long] > [+sec.stress]", "[] > [tone:1234]", "$ > *", "* > $", "$C > &", "C$ > &", "$V > &", "V$ > &", "$a > &", "[]$ > &",
    // alpha-valued stress setters (still "output only sets stress"): the alpha is bound by the input
    "%:[αstress] > [αsec.stress]", "V:[αstress] > [-αsec.stress]", "[αstress] > [αsec.stress]", "%:[αsec.stress] > [αstress]", "V:[αlong] > [αstress]", "V:[αlong] > [-αsec.stress]", "C:[αsec.stress] > [-αstress, tone:5]"];
/// (variables 8 and 9, so that the environment items `C=1`, `%=1`, `1` of the alphabet stay independent of them)
/// boundary changes written as substitutions: the output restates the matched segments (through variables, or as the same literal) and
/// only adds, drops or moves a `$`. (flag: the output holds a literal, which by the manual shortens a long segment it replaces — such rules
/// are claimed on words without long segments only)
const B_RULES: [(&str, bool); 22] = [("V=8 $ > 8", false), ("C=8 $ > 8", false), ("[]=8 $ > 8", false), ("$ V=8 > 8", false), ("$ C=8 > 8", false), ("$ []=8 > 8", false),
    ("V=8 $ C=9 > 8 9", false), ("C=8 $ V=9 > 8 9", false), ("[]=8 $ []=9 > 8 $ 9", false), ("V=8 > 8 $", false), ("C=8 > $ 8", false), ("V=8 C=9 > 8 $ 9", false), ("C=8 $ V=9 > $ 8 9", false), ("V=8 $ C=9 > 8 9 $", false),
    ("a $ > a", true), ("t $ > t", true), ("$ a > a", true), ("$ t > t", true), ("a > a $", true), ("t > $ t", true), ("a $ t > a t", true), ("a t > a $ t", true)];
/// the same with the alpha bound by the context
const P_CTX_RULES: [&str; 6] = ["V > [αsec.stress] / _ C:[αstress]", "V > [-αstress] / [αsec.stress] _", "% > [αstress] / _ %:[αstress]", "V > [Asec.stress] / _C:[Astress]", "% > [-αsec.stress] / %:[αstress] _", "V > [αstress, βsec.stress] / C:[βstress] _ C:[αlong]"];

fn env_texts(size: usize) -> Vec<String> {
    let mut sides: Vec<Vec<&str>> = vec![vec![]];
    for a in ENV_ITEMS { sides.push(vec![a]); }
    let mut v = vec![String::new()];
    let j = |x: &Vec<&str>| x.join(" ");
    for b in &sides { for a in &sides {
        if b.is_empty() && a.is_empty() { continue; }
        if size < 2 && !b.is_empty() && !a.is_empty() { continue; }
        for (bb, aa) in [(j(b), j(a)), (format!("# {}", j(b)), j(a)), (j(b), format!("{} #", j(a)))] {
            if size < 2 && (bb.starts_with('#') && !b.is_empty() || aa.ends_with('#') && !a.is_empty()) { continue; }
            v.push(format!(" / {} _ {}", bb, aa));
            v.push(format!(" | {} _ {}", bb, aa));
        }
    } }
    v.sort(); v.dedup();
    v
}

fn words(max_len: usize) -> Vec<CW> {
    let inv: Vec<SegBits> = ["p", "t", "a", "i"].iter().map(|t| seg(t)).collect();
    let mut out = vec![];
    for (k, w) in word_space(&inv, max_len).into_iter().enumerate() {
        // decorations 2 and 3 vary one tier only (neighbours that differ in tone alone / in stress alone), 4 is the bare word
        for d in 0..5 {
            let mut x = w.clone();
            for (i, sy) in x.iter_mut().enumerate() {
                sy.stress = match d { 0 => ((k + i) % 3) as u8, 1 => ((k / 3 + 2 * i) % 3) as u8, 3 => ((k + 2 * i) % 3) as u8, _ => 0 };
                sy.tone = match d { 0 => [0, 5, 51, 1234][(k + i) % 4], 1 => [5, 0, 0, 51][(k / 2 + i) % 4], 2 => [0, 5, 51, 1234][(k + i) % 4], 3 => 5, _ => 0 };
            }
            out.push(x);
        }
    }
    // runs longer than overlong (typed `kaaaa`, or made by an earlier boundary deletion): copies are segments of the tier as well
    let (t, a, i, p) = (seg("t"), seg("a"), seg("i"), seg("p"));
    // ... and syllables that meet in the same segment, so that joining them makes one run of four to six copies
    for (k, segs) in [vec![vec![t, a, a, a, a]], vec![vec![a, a, a, a], vec![t, a]], vec![vec![t, a], vec![i, i, i, i, i, t]], vec![vec![t, t, t, t, a]], vec![vec![a, a, a, a, a, a]],
        vec![vec![t, a, a], vec![a, a]], vec![vec![t, i], vec![i, i, i]], vec![vec![p, a, t], vec![t, t, t], vec![a]], vec![vec![t, a, a], vec![a, a], vec![a, a]], vec![vec![a, a], vec![a, a, t]]].into_iter().enumerate() {
        for d in 0..2 { out.push(segs.iter().enumerate().map(|(j, sg)| CSyl { segs: sg.clone(), stress: ((k + j + d) % 3) as u8, tone: [0, 5, 51][(k + j + d) % 3] }).collect()); }
    }
    out
}

#[derive(Default)]
struct Acc { evals: u64, ok_changed: u64, ok_same: u64, errs: u64, rejected: u64, crashed: u64, viols: Vec<Viol>, outs: std::collections::BTreeSet<u64> }
impl Acc { fn merge(&mut self, o: Acc) { self.evals += o.evals; self.ok_changed += o.ok_changed; self.ok_same += o.ok_same; self.errs += o.errs; self.rejected += o.rejected; self.crashed += o.crashed; self.viols.extend(o.viols); self.outs.extend(o.outs); } }

fn flat(w: &CW) -> Vec<SegBits> { w.iter().flat_map(|s| s.segs.iter().copied()).collect() }

/// class: 'S' segment-only (ipa_out: output is plain IPA), 'P' prosody-only
fn eval(text: &str, class: char, ipa_out: bool, ws: &[CW], a: &mut Acc) {
    let compiled = match guarded(1_000_000, || av::compile(&[group(&[text])])) { Out::Ok(Ok(c)) => c, Out::Ok(Err(_)) => { a.rejected += 1; return; } _ => { a.crashed += 1; return; } };
    for w in ws {
        if class == 'P' && ipa_out && has_adjacent_equal(w) { continue; }
        a.evals += 1;
        let got = guarded(budget_for(14, text.chars().count()), || av::apply_group(&compiled, 0, word_of(w)).map(|x| cw_of(&x)));
        let g = match got { Out::Ok(Ok(g)) => g, Out::Ok(Err(_)) => { a.errs += 1; continue; } _ => { a.crashed += 1; break; } };
        let problem: Option<String> = if class == 'S' {
            if g.len() != w.len() { Some(format!("number of syllables {} -> {}", w.len(), g.len())) }
            else if g.iter().zip(w).any(|(x, y)| x.stress != y.stress || x.tone != y.tone) { Some("stress or tone changed".into()) }
            else if !(ipa_out && has_adjacent_equal(w)) && !has_adjacent_equal(w) && g.iter().zip(w).any(|(x, y)| x.segs.len() != y.segs.len()) { Some("a syllable boundary moved (segments per syllable changed)".into()) }
            else { None }
        } else if flat(&g) != flat(w) { Some("the segment sequence changed".into()) } else { None };
        match problem {
            None => { if g == *w { a.ok_same += 1 } else { a.ok_changed += 1; a.outs.insert(hash64(&g)); } }
            Some(p) => a.viols.push(Viol { key: format!("{}|{}|{}", class, text, show_cw(w)), desc: format!("{} rule `{}` on /{}/ gives /{}/: {}", if class == 'S' { "segment-only" } else { "prosody-only" }, text, show_cw(w), show_cw(&g), p), case: json!({"rule": text, "class": class.to_string(), "ipa_out": ipa_out, "word": cw_json(w)}) }),
        }
    }
}

pub fn run() -> i32 {
    let mut r = Report::new("C14");
    let thorough = r.thorough();
    r.rule = "class S (segment-only): input = 1 or 2 segment-matching items over {a,t,C,V,[+cons],[],{p,a},V:[+long],a:[-long]}, output = the same number of items over {i,t,[+voice],[-hi],[-place],[+round]}; class P (prosody-only): stress / secondary stress / tone setters on % and on segments (binary, and alpha-valued with the alpha bound by the input or by the context), `$ > *`, `* > $`, `$X > &`, `X$ > &`, and 22 boundary changes written as substitutions whose output restates the matched segments and adds / drops / moves a `$` (`V=1 $ > 1`, `C=1 > $ 1`, `a $ t > a t`, ...; the literal forms on words without long segments); each with no environment and with every context and every exception of <= 1 item (thorough: one item on each side, `#`) over the 22-item environment alphabet (optionals, ellipsis, %, structures, sets, variables); x decorated words of W(I4,L) incl. long segments, plus twenty words with runs of four to six copies, half of them only once two syllables are joined. Oracle when Ok: S keeps syllable count, stress and tone vectors (and segments per syllable when no long segment is involved); P keeps the flattened segment sequence. Non-trivial = Ok and the word changed.".into();
    let ws = words(if thorough { 4 } else { 3 });
    let e1 = env_texts(if thorough { 2 } else { 1 });
    let e_small: Vec<String> = e1.iter().take(1).cloned().chain(e1.iter().skip(1).step_by(if thorough { 7 } else { 9 }).cloned()).collect();
    let mut jobs: Vec<(String, char, bool)> = vec![];
    for i in S_IN { for (oi, o) in S_OUT.iter().enumerate() { for e in &e1 { jobs.push((format!("{} > {}{}", i, o, e), 'S', oi < 2)); } } }
    for i in S_IN { for j in S_IN { for (oi, o) in S_OUT.iter().enumerate() { for (pi, p) in S_OUT.iter().enumerate() { for e in &e_small { jobs.push((format!("{} {} > {} {}{}", i, j, o, p, e), 'S', oi < 2 || pi < 2)); } } } } }
    // whole syllables rewritten segment for segment by an output structure of the same shape: the syllable count, its stress and its tone stay
    for (i, o) in [("⟨C V⟩", "⟨t i⟩"), ("⟨C V C⟩", "⟨t i p⟩"), ("⟨V⟩", "⟨i⟩"), ("⟨V C⟩", "⟨i t⟩"), ("⟨C=1 V=2⟩", "⟨1 2⟩"), ("⟨C=1 V=2⟩", "⟨1 i⟩"), ("⟨p a⟩", "⟨t a⟩"), ("⟨C V⟩", "⟨t [+round]⟩")] { for e in &e_small { jobs.push((format!("{} > {}{}", i, o, e), 'S', true)); } }
    for p in P_RULES { for e in &e1 { if p == "* > $" && !e.contains('/') { continue; } jobs.push((format!("{}{}", p, e), 'P', false)); } }
    for p in P_CTX_RULES { jobs.push((p.to_string(), 'P', false)); }
    // ipa flag of a P job: the output holds a literal segment, words with long segments are not claimed
    for (p, lit) in B_RULES { for e in &e1 { jobs.push((format!("{}{}", p, e), 'P', lit)); } }
    let mut ts = Acc::default(); let mut tp = Acc::default();
    let mut both: Vec<(Acc, Acc)> = vec![];
    par_fold(jobs.len(), 16, || (Acc::default(), Acc::default()), |i, a: &mut (Acc, Acc)| { let (t, c, ipa) = &jobs[i]; if *c == 'S' { eval(t, 'S', *ipa, &ws, &mut a.0) } else { eval(t, 'P', *ipa, &ws, &mut a.1) } }, |a| both.push(a));
    for (s, p) in both { ts.merge(s); tp.merge(p); }
    for (name, t) in [("S segment-only", &ts), ("P prosody-only", &tp)] {
        r.boxes.push(json!({"box": name, "applications": t.evals, "ok_changed": t.ok_changed, "ok_unchanged": t.ok_same, "runtime_errors": t.errs, "rules_rejected": t.rejected, "crashed (C02)": t.crashed}));
        r.guard(t.ok_changed > 1000, &format!("{}: more than 1000 applications changed the word", name));
    }
    r.boxes.push(json!({"rules": jobs.len(), "words": ws.len(), "environments": e1.len()}));
    r.evaluations = ts.evals + tp.evals; r.transitions = r.evaluations; r.validated = ts.ok_changed + ts.ok_same + tp.ok_changed + tp.ok_same; r.nontrivial = ts.ok_changed + tp.ok_changed;
    let mut outs = std::mem::take(&mut ts.outs); outs.extend(std::mem::take(&mut tp.outs)); r.states = outs;
    r.sample(json!({"rule": jobs[jobs.len() / 2].0, "class": "S"})); r.sample(json!({"rule": jobs[jobs.len() - 5].0, "class": "P", "word": show_cw(&ws[ws.len() / 2])}));
    for v in ts.viols.into_iter().chain(tp.viols) { r.viol(v); }
    r.finish()
}

pub fn replay(case: &Value) -> Result<String, String> {
    let w = cw_from_json(&case["word"]).ok_or("word")?;
    let mut a = Acc::default();
    eval(case["rule"].as_str().ok_or("rule")?, case["class"].as_str().unwrap_or("S").chars().next().unwrap(), case["ipa_out"].as_bool().unwrap_or(false), &[w], &mut a);
    match a.viols.first() { Some(v) => Err(v.desc.clone()), None => Ok("tiers do not leak".into()) }
}
