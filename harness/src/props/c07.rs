//! C07 — variables and alphas reproduce exactly what they captured.
use crate::model::{self, FEATS, PLACE_NODES};
use crate::util::*;
use asca::verif as av;
use serde_json::{json, Value};

const XS: [&str; 8] = ["[]", "[+cons]", "C", "V", "%", "⟨...⟩", "⟨CV⟩", "%:[+stress]"];
const ENV_ITEMS: [&str; 11] = ["p", "t", "a", "i", "[+cons]", "C", "V", "[+hi]", "{p,a}", "$", "#"];

fn env_texts(full: bool) -> Vec<String> {
    let mut v = vec![String::new()];
    let sides: Vec<&str> = std::iter::once("").chain(ENV_ITEMS.iter().copied()).collect();
    for b in &sides { for a in &sides {
        if b.is_empty() && a.is_empty() { continue; }
        if !full && !b.is_empty() && !a.is_empty() { continue; }
        v.push(format!(" / {} _ {}", b, a));
    } }
    v
}

/// decorated word space: every word of W(I4, L) (long segments included) with five
/// stress/tone decorations that cycle with the index
fn words(max_len: usize) -> Vec<CW> {
    let inv: Vec<SegBits> = ["p", "t", "a", "i"].iter().map(|t| seg(t)).collect();
    let mut out = vec![];
    for (k, w) in word_space(&inv, max_len).into_iter().enumerate() {
        // decorations 3 and 4 vary one tier only: neighbouring syllables that differ in tone alone / in stress alone
        for d in 0..5 {
            let mut x = w.clone();
            for (i, sy) in x.iter_mut().enumerate() {
                sy.stress = match d { 0 | 3 => 0, 1 | 4 => ((k + i) % 3) as u8, _ => ((k + 2 * i + 1) % 3) as u8 };
                sy.tone = match d { 0 => 0, 1 | 3 => [0, 5, 51, 1234][(k + i) % 4], 4 => 5, _ => [51, 0, 5, 5][(k / 2 + i) % 4] };
            }
            out.push(x);
        }
    }
    out
}

#[derive(Default)]
struct Acc { evals: u64, same: u64, errs: u64, rejected: u64, nofire: u64, fire: u64, viols: Vec<Viol>, err_kinds: std::collections::BTreeMap<String, u64>, outs: std::collections::BTreeSet<u64> }
impl Acc { fn merge(&mut self, o: Acc) { self.evals += o.evals; self.same += o.same; self.errs += o.errs; self.rejected += o.rejected; self.nofire += o.nofire; self.fire += o.fire; self.viols.extend(o.viols); self.outs.extend(o.outs); for (k, v) in o.err_kinds { *self.err_kinds.entry(k).or_insert(0) += v; } } }

fn identity_rule(text: &str, class: &str, ws: &[CW], a: &mut Acc) {
    let compiled = match guarded(1_000_000, || av::compile(&[group(&[text])])) {
        Out::Ok(Ok(c)) => c,
        Out::Ok(Err(_)) => { a.rejected += 1; return; }
        o => { a.viols.push(Viol { key: format!("{}|compile-crash|{}", class, text), desc: o.crash_desc().unwrap(), case: json!({"kind": "identity", "rule": text}) }); return; }
    };
    for w in ws {
        // length is a three-way distinction (short / long / overlong): a run of four or more copies is outside the table, so length alphas are not claimed on it
        if class.starts_with("alpha-l") && w.iter().any(|sy| sy.segs.windows(4).any(|p| p[0] == p[1] && p[1] == p[2] && p[2] == p[3])) { continue; }
        a.evals += 1;
        let got = guarded(budget_for(12, text.chars().count()), || av::apply_group(&compiled, 0, word_of(w)).map(|x| cw_of(&x)).map_err(|e| format!("{:?}", e)));
        match got {
            Out::Ok(Ok(g)) => {
                if g == *w { a.same += 1; a.outs.insert(hash64(&g)); } else {
                    // cell-exact signature for the one-bit stress alpha: the only difference is secondary -> primary
                    let only_s_to_p = g.len() == w.len() && g.iter().zip(w.iter()).all(|(x, y)| x.segs == y.segs && x.tone == y.tone && (x.stress == y.stress || (y.stress == 2 && x.stress == 1)));
                    // cell-exact signature for a structure restated through variables: the only difference is that long segments came back short
                    let collapse = |sy: &CSyl| -> Vec<SegBits> { let mut v = sy.segs.clone(); v.dedup(); v };
                    let only_len_lost = g.len() == w.len() && g.iter().zip(w.iter()).all(|(x, y)| x.tone == y.tone && x.stress == y.stress && (x.segs == y.segs || (x.segs == collapse(y) && x.segs.len() < y.segs.len())));
                    let key = if class == "alpha-stress-alone" && only_s_to_p { format!("{}|{}|secondary->primary", class, text) } else if class == "struct-identity" && only_len_lost { format!("{}|{}|long-segment-shortened", class, text) } else { format!("{}|{}|{}", class, text, show_cw(w)) };
                    a.viols.push(Viol { key, desc: format!("identity rule `{}` changed /{}/ into /{}/", text, show_cw(w), show_cw(&g)), case: json!({"kind": "identity", "rule": text, "word": cw_json(w), "class": class}) });
                }
            }
            Out::Ok(Err(e)) => { a.errs += 1; *a.err_kinds.entry(e.split('(').next().unwrap_or("").to_string()).or_insert(0) += 1; }
            o => a.viols.push(Viol { key: format!("{}|crash|{}|{}", class, o.crash_sig().unwrap(), text), desc: format!("`{}` on /{}/: {}", text, show_cw(w), o.crash_desc().unwrap()), case: json!({"kind": "identity", "rule": text, "word": cw_json(w), "class": class}) }),
        }
    }
}

fn xm_c(b: SegBits) -> bool { model::feat(b, 2) == Some(false) }
fn xm_v(b: SegBits) -> bool { model::feat(b, 0) == Some(false) && model::feat(b, 1) == Some(true) && model::feat(b, 2) == Some(true) }
/// (c) `a > i / X=1 _ 1`: fires exactly between identical neighbours
fn sandwich(x: &str, ws: &[CW], a: &mut Acc) {
    let text = format!("a > i / {}=1 _ 1", x);
    let compiled = match guarded(1_000_000, || av::compile(&[group(&[&text])])) { Out::Ok(Ok(c)) => c, _ => { a.rejected += 1; return; } };
    let (sa, si) = (seg("a"), seg("i"));
    let xm = |b: SegBits| -> bool {
        match x { "[]" => true, "C" => model::feat(b, 2) == Some(false), "V" => model::feat(b, 0) == Some(false) && model::feat(b, 1) == Some(true) && model::feat(b, 2) == Some(true), "[+cons]" => model::feat(b, 0) == Some(true), _ => false }
    };
    for w in ws {
        if has_adjacent_equal(w) { continue; }
        // reference: left to right, left neighbour from the rewritten prefix
        let mut e = w.clone();
        let mut fired = false;
        if x == "%" || x.starts_with('⟨') {
            // a structure also fixes the shape of the captured syllable: one item per segment, C = [-syll], V = vowel
            let shape_ok = |sy: &CSyl| -> bool {
                if x == "%" { return true; }
                let items: Vec<char> = x.trim_start_matches('⟨').trim_end_matches('⟩').chars().collect();
                sy.segs.len() == items.len() && sy.segs.iter().zip(items.iter()).all(|(b, it)| if *it == 'C' { xm_c(*b) } else { xm_v(*b) })
            };
            for s in 1..e.len().saturating_sub(1) {
                if e[s].segs.len() == 1 && e[s].segs[0] == sa && shape_ok(&e[s - 1]) && e[s - 1] == e[s + 1] { e[s].segs[0] = si; fired = true; }
            }
        } else {
            let n: usize = e.iter().map(|s| s.segs.len()).sum();
            let idx = |e: &CW, j: usize| -> (usize, usize) { let mut k = j; for (s, sy) in e.iter().enumerate() { if k < sy.segs.len() { return (s, k); } k -= sy.segs.len(); } unreachable!() };
            for j in 1..n.saturating_sub(1) {
                let (s, k) = idx(&e, j);
                if e[s].segs[k] != sa { continue; }
                let (ls, lk) = idx(&e, j - 1); let (rs, rk) = idx(&e, j + 1);
                let (l, r) = (e[ls].segs[lk], e[rs].segs[rk]);
                if xm(l) && l == r { e[s].segs[k] = si; fired = true; if has_adjacent_equal(&e) { break; } }
            }
            if has_adjacent_equal(&e) { continue; }
        }
        a.evals += 1;
        let got = guarded(budget_for(12, text.chars().count()), || av::apply_group(&compiled, 0, word_of(w)).map(|x| cw_of(&x)).map_err(|e| format!("{:?}", e)));
        match got {
            Out::Ok(Ok(g)) if g == e => { if fired { a.fire += 1 } else { a.nofire += 1 } a.outs.insert(hash64(&g)); }
            Out::Ok(Ok(g)) => a.viols.push(Viol { key: format!("sandwich|{}|{}", text, show_cw(w)), desc: format!("`{}` on /{}/: a variable in the context must match only an identical element: expected /{}/, got /{}/", text, show_cw(w), show_cw(&e), show_cw(&g)), case: json!({"kind": "sandwich", "x": x, "word": cw_json(w)}) }),
            Out::Ok(Err(er)) => a.viols.push(Viol { key: format!("sandwich|{}|{}", text, show_cw(w)), desc: format!("`{}` on /{}/: expected /{}/, got error {}", text, show_cw(w), show_cw(&e), er), case: json!({"kind": "sandwich", "x": x, "word": cw_json(w)}) }),
            o => a.viols.push(Viol { key: format!("sandwich|crash|{}|{}", o.crash_sig().unwrap(), text), desc: o.crash_desc().unwrap(), case: json!({"kind": "sandwich", "x": x, "word": cw_json(w)}) }),
        }
    }
}

fn alpha_rules() -> Vec<(String, String)> {
    let mut v = vec![];
    for f in FEATS { v.push((format!("[α{}] > [α{}]", f.0, f.0), "alpha-feature".to_string())); v.push((format!("[-α{}] > [-α{}]", f.0, f.0), "alpha-feature-inv".to_string())); }
    for n in PLACE_NODES.iter().chain(["place"].iter()) { v.push((format!("[α{}] > [α{}]", n, n), "alpha-node".to_string())); }
    for s in ["long", "overlong"] { v.push((format!("[α{}] > [α{}]", s, s), format!("alpha-{}", s))); }
    v.push(("[αlong, βoverlong] > [αlong, βoverlong]".into(), "alpha-length-pair".into()));
    v.push(("[αstress] > [αstress]".into(), "alpha-stress-alone".into()));
    v.push(("[αsec.stress] > [αsec.stress]".into(), "alpha-secstress-alone".into()));
    v.push(("[αstress, βsec.stress] > [αstress, βsec.stress]".into(), "alpha-stress-pair".into()));
    v.push(("%:[αstress] > [αstress]".into(), "alpha-stress-alone".into()));
    v.push(("%:[αstress, βsec.stress] > [αstress, βsec.stress]".into(), "alpha-stress-pair".into()));
    v.push(("V:[αlong] > [αlong]".into(), "alpha-long".into()));
    v.push(("a:[αlong, βoverlong] > a:[αlong, βoverlong]".into(), "alpha-length-ipa".into()));
    // the same values copied onto the element they were read from through a variable (`V:[αlong]=1 > 1:[αlong]`): both captures at once
    for (x, m) in [("V", "αlong"), ("[]", "αoverlong"), ("C", "αlong"), ("V", "αlong, βoverlong"), ("[]", "αlong, βoverlong"), ("V", "αnasal"), ("[]", "αvoice"), ("V", "αlong, βnasal")] {
        v.push((if x == "[]" { format!("[{}]=1 > 1:[{}]", m, m) } else { format!("{}:[{}]=1 > 1:[{}]", x, m, m) }, "alpha-l-var".to_string()));
    }
    // the inverted form as the FIRST (binding) occurrence: `-α` read from the segment, `-α` written back
    for m in ["-αlong", "-αoverlong", "αlong, -βoverlong", "-αlong, -βoverlong", "-αnasal, -βlong"] {
        v.push((format!("[{}] > [{}]", m, m), "alpha-l-inv".to_string()));
        v.push((format!("V:[{}]=1 > 1:[{}]", m, m), "alpha-l-inv".to_string()));
    }
    for m in ["αstress", "αstress, βsec.stress"] { v.push((format!("%:[{}]=1 > 1:[{}]", m, m), if m == "αstress" { "alpha-stress-alone".to_string() } else { "alpha-stress-pair".to_string() })); }
    v
}

/// (e) `a > i / X=1 _ 1:[-long]` (and `[-stress]`) on /x a y/ for x, y over 31 phones incl. secondary-articulation twins: fires iff x == y. (d) a variable inside a structure of the context: `C=1 a > i / _ ⟨1 a⟩` must act as the composition of the literal rules
/// `p a > i / _ ⟨p a⟩` then `t a > i / _ ⟨t a⟩` (the positions the two select are disjoint and neither feeds the other)
fn var_in_structure(shape: usize, ws: &[CW], a: &mut Acc) {
    let mk = |c: &str| match shape { 0 => format!("{} a > i / _ ⟨{} a⟩", if c == "1" { "C=1" } else { c }, c), 1 => format!("{} a > i / ⟨{} a⟩ _", if c == "1" { "C=1" } else { c }, c), 2 => format!("{} > i / _ ⟨t ... {}⟩", if c == "1" { "V=1" } else { c }, c), _ => format!("{} a > i / _ ⟨{} ... ⟩", if c == "1" { "C=1" } else { c }, c) };
    let lits: Vec<&str> = if shape == 2 { vec!["a", "i"] } else { vec!["p", "t"] };
    let var_rule = mk("1");
    let comp = |t: &str| match guarded(1_000_000, || av::compile(&[group(&[t])])) { Out::Ok(Ok(c)) => Some(c), _ => None };
    let Some(cv) = comp(&var_rule) else { a.viols.push(Viol { key: format!("var-in-structure|compile|{}", var_rule), desc: format!("`{}` does not compile", var_rule), case: json!({"kind": "varstruct", "shape": shape}) }); return };
    let cl: Vec<_> = lits.iter().filter_map(|c| comp(&mk(c))).collect();
    if cl.len() != lits.len() { a.rejected += 1; return; }
    for w in ws {
        a.evals += 1;
        let got = guarded(200_000, || av::apply_group(&cv, 0, word_of(w)).map(|x| cw_of(&x)).map_err(|e| format!("{:?}", e)));
        let want = guarded(400_000, || { let mut cur = word_of(w); for c in &cl { cur = av::apply_group(c, 0, cur).map_err(|e| format!("{:?}", e))?; } Ok::<CW, String>(cw_of(&cur)) });
        match (got, want) {
            (Out::Ok(g), Out::Ok(x)) if g == x => { if g.as_ref().ok() == Some(w) { a.nofire += 1; } else { a.fire += 1; a.outs.insert(hash64(&g)); } }
            (g, x) => a.viols.push(Viol { key: format!("var-in-structure|{}|{}", var_rule, show_cw(w)), desc: format!("`{}` on /{}/ gives {:?}; the literal rules {:?} one after the other give {:?}", var_rule, show_cw(w), g.crash_desc().map(Err::<String, String>).unwrap_or(Ok(String::new())).err().or(None), lits.iter().map(|c| mk(c)).collect::<Vec<_>>(), x.crash_desc()), case: json!({"kind": "varstruct", "shape": shape, "word": cw_json(w)}) }),
        }
    }
}

/// (e) a variable that carries a (suprasegmental) modifier still matches only a segment identical to the captured one: /x a y/ with
/// x, y over plain phones and their secondary-articulation twins (k kʷ, t tʲ tˤ ...)
fn sandwich_mod(rule: usize, a: &mut Acc) {
    let texts = ["a > i / []=1 _ 1:[-long]", "a > i / C=1 _ 1:[-long]", "a > i / []=1 _ 1:[-stress]", "a > i / 1:[-long] _ []=1"];
    let text = texts[rule];
    let Some(compiled) = (match guarded(1_000_000, || av::compile(&[group(&[text])])) { Out::Ok(Ok(c)) => Some(c), _ => None }) else { a.rejected += 1; return; };
    let uni: Vec<SegBits> = ["k", "kʷ", "kʲ", "t", "tʲ", "tˤ", "tʷ", "p", "pʲ", "pʰ", "n", "n̩", "ã", "i", "ĩ", "s", "sʷ", "d", "dʲ", "kʰ", "q", "qʷ", "c", "ɡ", "ɡʷ", "m", "mʲ", "l", "lˠ", "u", "ũ"].iter().filter_map(|t| match guarded(200_000, || av::parse_word(t, None)) { Out::Ok(Ok(w)) if w.syllables.len() == 1 && w.syllables[0].segments.len() == 1 => Some(bits(&w.syllables[0].segments[0])), _ => None }).collect();
    let (sa, si) = (seg("a"), seg("i"));
    for x in &uni { for y in &uni {
        let w: CW = vec![CSyl { segs: vec![*x, sa, *y], stress: 0, tone: 0 }];
        // rule 3 declares the variable AFTER its use (`1:[-long] _ []=1`): not a binding order the manual defines, so only the Ok/unchanged case is claimed there
        let is_c = model::feat(*x, 2) == Some(false);
        let fires = match rule { 1 => x == y && is_c, 3 => false, _ => x == y };
        let mut e = w.clone(); if fires { e[0].segs[1] = si; }
        if has_adjacent_equal(&e) { continue; }
        a.evals += 1;
        match guarded(budget_for(8, text.chars().count()), || av::apply_group(&compiled, 0, word_of(&w)).map(|x| cw_of(&x)).map_err(|e| format!("{:?}", e))) {
            Out::Ok(Ok(g)) if g == e => { if fires { a.fire += 1 } else { a.nofire += 1 } a.outs.insert(hash64(&g)); }
            Out::Ok(Err(_)) if rule == 3 => { a.errs += 1; }
            Out::Ok(Ok(g)) if rule == 3 && g[0].segs[1] == si && x == y => { a.fire += 1; }
            Out::Ok(g) => a.viols.push(Viol { key: format!("sandwich-mod|{}|{}", text, show_cw(&w)), desc: format!("`{}` on /{}/: a variable with a modifier must match only a segment identical to the captured one: expected /{}/, got {:?}", text, show_cw(&w), show_cw(&e), g.map(|x| show_cw(&x))), case: json!({"kind": "sandwichmod", "rule": rule, "word": cw_json(&w)}) }),
            _ => {}
        }
    } }
}

pub fn run() -> i32 {
    let mut r = Report::new("C07");
    let thorough = r.thorough();
    r.rule = "(a) `X1=1 .. Xk=k > 1 .. k`, Xi in {[], [+cons], C, V, %, ⟨...⟩, ⟨CV⟩, %:[+stress]}, with no environment and with every one-item-per-side environment over {p,t,a,i,[+cons],C,V,[+hi],{p,a},$,#}; (b) `[αF] > [αF]`, `[-αF] > [-αF]` for 26 features, `[αN] > [αN]` for lab/cor/dor/phr/place, alphas on long / overlong / stress / sec.stress alone and in pairs, on matrices, `%`, groups and IPA; x decorated words of W(I4,L) (long segments, stress, tones) and, for (b), every one-segment word over the segment universe; oracle: result == input. (c) `a > i / X=1 _ 1` for X in {[], C, V, [+cons], %, ⟨CV⟩, ⟨CVC⟩, ⟨VC⟩, ⟨V⟩} vs a reference that fires exactly between identical neighbours. (e) `a > i / X=1 _ 1:[-long]` (and `[-stress]`) on /x a y/ for x, y over 31 phones incl. secondary-articulation twins: fires iff x == y. (f) identity rules that use a variable again inside the input (`X=1 1 > 1 1`, `X=1 Y=2 1 2 > 1 2 1 2`, ...). (d) a variable inside a structure of the context (`C=1 a > i / _ ⟨1 a⟩`, before-context, after an ellipsis, before an ellipsis) vs the literal rules applied one after the other. Non-trivial = rule compiled, call returned Ok.".into();
    let l = if thorough { 4 } else { 3 };
    let ws = words(l);
    let kmax = if thorough { 3 } else { 2 };
    let mut jobs: Vec<(String, String)> = vec![];
    let envs_full = env_texts(true);
    let envs_side = env_texts(false);
    for k in 1..=kmax {
        let n = XS.len().pow(k as u32);
        for idx in 0..n {
            let mut xs = vec![]; let mut q = idx;
            for _ in 0..k { xs.push(XS[q % XS.len()]); q /= XS.len(); }
            let lhs: Vec<String> = xs.iter().enumerate().map(|(i, x)| format!("{}={}", x, i + 1)).collect();
            let rhs: Vec<String> = (1..=k).map(|i| i.to_string()).collect();
            let envs = if k <= 2 { &envs_full } else { &envs_side };
            for e in envs { jobs.push((format!("{} > {}{}", lhs.join(" "), rhs.join(" "), e), format!("var-k{}", k))); }
        }
    }
    let mut tot = Acc::default();
    par_fold(jobs.len(), 8, Acc::default, |i, a| identity_rule(&jobs[i].0, &jobs[i].1, &ws, a), |a| tot.merge(a));
    r.boxes.push(json!({"box": "(a) variable identity rules", "rules": jobs.len(), "words": ws.len(), "applications": tot.evals, "unchanged": tot.same, "runtime_errors": tot.errs, "rejected_rules": tot.rejected, "error_kinds": tot.err_kinds}));
    r.guard(tot.same > 100_000, "(a) more than 100k Ok applications");
    // (b)
    let mut uni: Vec<CW> = super::c04::segment_universe(thorough).into_iter().map(|(_, b)| vec![CSyl { segs: vec![b], stress: 0, tone: 0 }]).collect();
    uni.extend(ws.iter().cloned());
    let ar = alpha_rules();
    let mut tb = Acc::default();
    par_fold(ar.len(), 1, Acc::default, |i, a| identity_rule(&ar[i].0, &ar[i].1, &uni, a), |a| tb.merge(a));
    r.boxes.push(json!({"box": "(b) alpha identity rules", "rules": ar.len(), "words": uni.len(), "applications": tb.evals, "unchanged": tb.same, "runtime_errors": tb.errs, "rejected_rules": tb.rejected, "error_kinds": tb.err_kinds}));
    r.guard(tb.rejected == 0, "(b) every alpha rule compiles");
    // (c)
    let mut tc = Acc::default();
    let xs = ["[]", "C", "V", "[+cons]", "%", "⟨CV⟩", "⟨CVC⟩", "⟨VC⟩", "⟨V⟩"];
    let wc = words(if thorough { 5 } else { 4 });
    // words σ1 . a . σ2 for σ1, σ2 over every syllable of the shapes V, CV, VC, CVC on {p,t,a,i} (mirror images such as tak / kat included),
    // with four tone / stress decorations of the outer syllables
    let (cs, vs) = ([seg("p"), seg("t")], [seg("a"), seg("i")]);
    let mut sylls: Vec<Vec<SegBits>> = vec![];
    for v in vs { sylls.push(vec![v]); for c in cs { sylls.push(vec![c, v]); sylls.push(vec![v, c]); for d in cs { sylls.push(vec![c, v, d]); } } }
    let mut wstruct: Vec<CW> = vec![];
    for a1 in &sylls { for a2 in &sylls { for d in 0..4 {
        let (t1, t2, s1, s2) = match d { 0 => (0, 0, 0, 0), 1 => (5, 5, 1, 1), 2 => (5, 51, 0, 0), _ => (0, 0, 1, 2) };
        wstruct.push(vec![CSyl { segs: a1.clone(), stress: s1, tone: t1 }, CSyl { segs: vec![seg("a")], stress: 0, tone: 0 }, CSyl { segs: a2.clone(), stress: s2, tone: t2 }]);
    } } }
    par_fold(xs.len(), 1, Acc::default, |i, a| { sandwich(xs[i], &wc, a); if xs[i] == "%" || xs[i].starts_with('⟨') { sandwich(xs[i], &wstruct, a); } }, |a| tc.merge(a));
    r.boxes.push(json!({"box": "(c) variable in context", "rules": xs.len(), "words": wc.len(), "evaluated": tc.evals, "fired": tc.fire, "not_fired": tc.nofire}));
    r.guard(tc.fire > 0 && tc.nofire > 0, "(c) fires on some words and not on others");
    // (f) a variable used again inside the input: `X=1 1 > 1 1`, `X=1 Y=2 1 2 > 1 2 1 2`, ... restate their input as well; the second
    // occurrence may only match an element identical to the captured one (same segments, stress and tone), otherwise the copy written back differs
    let mut reuse: Vec<(String, String)> = vec![];
    for x in XS { for e in &envs_side { reuse.push((format!("{}=1 1 > 1 1{}", x, e), "var-reuse".to_string())); } }
    for x in XS { for y in XS {
        reuse.push((format!("{}=1 {}=2 1 2 > 1 2 1 2", x, y), "var-reuse".to_string()));
        reuse.push((format!("{}=1 {}=2 1 > 1 2 1", x, y), "var-reuse".to_string()));
        reuse.push((format!("{}=1 {}=2 2 > 1 2 2", x, y), "var-reuse".to_string()));
        reuse.push((format!("{}=1 1 {}=2 2 > 1 1 2 2", x, y), "var-reuse".to_string()));
    } }
    let mut tf = Acc::default();
    par_fold(reuse.len(), 4, Acc::default, |i, a| identity_rule(&reuse[i].0, &reuse[i].1, &wc, a), |a| tf.merge(a));
    r.boxes.push(json!({"box": "(f) variable used again inside the input (identity rules)", "rules": reuse.len(), "words": wc.len(), "applications": tf.evals, "unchanged": tf.same, "runtime_errors": tf.errs, "rejected_rules": tf.rejected, "error_kinds": tf.err_kinds}));
    r.guard(tf.same > 100_000, "(f) more than 100k Ok applications");
    tot.merge(tf);
    // (g) a structure whose elements are bound to variables, restated by an output structure (`⟨C=1 V=2⟩ > ⟨1 2⟩`): the syllable is written back as
    // it was - its segments (long ones included), its stress and its tone, none of which the output structure mentions
    let mut srules: Vec<(String, String)> = vec![];
    for (i, o) in [("⟨C=1 V=2⟩", "⟨1 2⟩"), ("⟨V=1⟩", "⟨1⟩"), ("⟨V=1 C=2⟩", "⟨1 2⟩"), ("⟨C=1 V=2 C=3⟩", "⟨1 2 3⟩"), ("⟨[]=1 []=2⟩", "⟨1 2⟩"), ("⟨C=1 ...⟩", "⟨1 ...⟩"), ("⟨C=1 V=2⟩=3", "3"), ("⟨[]=1 []=2 []=3⟩", "⟨1 2 3⟩")] {
        srules.push((format!("{} > {}", i, o), "struct-identity".to_string()));
        for e in [" / _ #", " / # _", " / _ $", " | _ #"] { srules.push((format!("{} > {}{}", i, o, e), "struct-identity".to_string())); }
    }
    let mut tg = Acc::default();
    par_fold(srules.len(), 1, Acc::default, |i, a| identity_rule(&srules[i].0, &srules[i].1, &ws, a), |a| tg.merge(a));
    r.boxes.push(json!({"box": "(g) structures with bound elements restated by an output structure (identity rules)", "rules": srules.len(), "words": ws.len(), "applications": tg.evals, "unchanged": tg.same, "runtime_errors": tg.errs, "rejected_rules": tg.rejected, "error_kinds": tg.err_kinds}));
    r.guard(tg.same > 10_000, "(g) more than 10k Ok applications");
    tot.merge(tg);
    // (d)
    let mut td = Acc::default();
    par_fold(4, 1, Acc::default, |i, a| var_in_structure(i, &wc, a), |a| td.merge(a));
    r.boxes.push(json!({"box": "(d) variable inside a context structure vs the literal rules", "rules": 4, "words": wc.len(), "evaluated": td.evals, "changed": td.fire, "unchanged": td.nofire}));
    r.guard(td.fire > 0 && td.nofire > 0, "(d) changes some words and not others");
    tc.merge(td);
    // (e)
    let mut te = Acc::default();
    par_fold(4, 1, Acc::default, |i, a| sandwich_mod(i, a), |a| te.merge(a));
    r.boxes.push(json!({"box": "(e) variable with a modifier in the context, phones and their secondary-articulation twins", "rules": 4, "evaluated": te.evals, "fired": te.fire, "not_fired": te.nofire}));
    r.guard(te.fire > 50 && te.nofire > 1000, "(e) fires on identical neighbours only");
    tc.merge(te);
    r.evaluations = tot.evals + tb.evals + tc.evals; r.transitions = r.evaluations; r.validated = tot.same + tb.same + tc.fire + tc.nofire; r.nontrivial = r.validated;
    r.outcome("unchanged", tot.same + tb.same); r.outcome("runtime_error", tot.errs + tb.errs); r.outcome("context_fired", tc.fire); r.outcome("context_not_fired", tc.nofire);
    r.states.extend(tot.outs.iter().chain(tb.outs.iter()).chain(tc.outs.iter()).cloned());
    r.sample(json!({"rule": jobs[jobs.len() / 2].0, "word": show_cw(&ws[ws.len() / 3])}));
    r.sample(json!({"rule": ar[10].0, "word": show_cw(&uni[200])}));
    r.sample(json!({"rule": "a > i / %=1 _ 1", "word": show_cw(&wc[wc.len() - 7])}));
    for v in tot.viols.into_iter().chain(tb.viols).chain(tc.viols) { r.viol(v); }
    r.finish()
}

pub fn replay(case: &Value) -> Result<String, String> {
    let mut a = Acc::default();
    match case["kind"].as_str() {
        Some("identity") => { let w = cw_from_json(&case["word"]).ok_or("no word")?; identity_rule(case["rule"].as_str().ok_or("no rule")?, case["class"].as_str().unwrap_or(""), &[w], &mut a); }
        Some("sandwich") => { let w = cw_from_json(&case["word"]).ok_or("no word")?; sandwich(match case["x"].as_str() { Some("[]") => "[]", Some("C") => "C", Some("V") => "V", Some("[+cons]") => "[+cons]", Some("⟨CV⟩") => "⟨CV⟩", Some("⟨CVC⟩") => "⟨CVC⟩", Some("⟨VC⟩") => "⟨VC⟩", Some("⟨V⟩") => "⟨V⟩", _ => "%" }, &[w], &mut a); }
        Some("sandwichmod") => { sandwich_mod(case["rule"].as_u64().unwrap_or(0) as usize, &mut a); let w = cw_from_json(&case["word"]).ok_or("no word")?; a.viols.retain(|v| v.key.ends_with(&format!("|{}", show_cw(&w)))); }
        Some("varstruct") => { let w = cw_from_json(&case["word"]).ok_or("no word")?; var_in_structure(case["shape"].as_u64().unwrap_or(0) as usize, &[w], &mut a); }
        _ => return Err("unknown case".into()),
    }
    if let Some(v) = a.viols.first() { Err(v.desc.clone()) } else { Ok("holds".into()) }
}
