//! C11 — words are processed independently and returned in order.
use crate::util::*;
use asca::RuleGroup;
use serde_json::{json, Value};

pub const RULE_POOL: [&str; 43] = [
    "a > e", "V > [+long] / _#", "[+cons] > [αvoice] / _[+cons, αvoice]", "C=1 V=2 > 2 1", "* > i / C_C", "a > *", "% > * / _%", "$C > & / _#", "% > [tone:51]", "%:[+stress] > [-stress]",
    "* > 1 / V=1_#", "V > [αhigh] / _CV:[αhigh]", "t > d / V_V", "p > b / #_", "* > $ / V_CV", "$ > * / _V", "CV > &", "V:[+long] > [-long]", "% > [+stress] / #_", "[] > [-voice] / _#",
    "a > ⟨ti⟩ / _#", "%=1 > * / 1_", "{p,t} > {b,d}", "i > j / _V", "C > * / _$", "* > ⟨ta⟩ / #_", "V > [+nasal] / _[+nasal]", "t > t͡s / _i", "ɬ > l", "l > ɬ",
    "a e > i", "V > [tone:5] / _C", "C...C > &", "k > [+round] / _u", "V=1 C > 1:[+long] / _#", "[+voice] > [-voice] / _$", "a > e | p_", "s > z / V_V",
    // bindings that must not survive from one word to the next
    "[+cons, αvoice] [+cons, αvoice] > &", "C=1 V 1 > [+long]", "%=1 1 > &",
    // these raise runtime errors on some words
    "{p,t} > {b}", "% > a",
];
/// two fail at parse (`p#a`, `ˈ`), the rest parse; which ones fail at apply depends on the rule
/// `pa\u{303}` / `ˈpa\u{303}`: a segment that needs a diacritic, stressed and unstressed (a romaniser with `+` prints it from its nearest plain letter)
pub const WORD_POOL: [&str; 17] = ["pa", "ta.pi", "ˈpa.taˌki", "a", "t", "paː", "ła.ta", "ɬa.ta", "p#a", "ˈ", "sa.pa51", "pad", "tka", "pa\u{303}", "ˈpa\u{303}",
    // the same words typed with the shorthands the word reader normalises (`:` for the length mark, the precomposed tilde vowel)
    "pa:", "p\u{e3}"];

fn g(rules: &[&str]) -> Vec<RuleGroup> { rules.iter().map(|r| RuleGroup { name: String::new(), rule: vec![r.to_string()], description: String::new() }).collect() }
/// the alias lines of a job: (deromanisers, romanisers)
pub type Al = (&'static [&'static str], &'static [&'static str]);
pub const NO_ALIAS: Al = (&[], &[]);
/// alias sets whose effect on one word depends on that word only: a `+` romaniser conditioned on stress / length (matches some occurrences of a
/// segment and not others), a deromaniser with its inverse, boundary removal
pub const ALIAS_SETS: [Al; 8] = [(&[], &["V:[+str] => +@{acute}"]), (&["sh > ʃ", "A > a:[+long]"], &["ʃ > sh", "a:[+long] > A"]), (&[], &["$ > *", "V:[+long] > +@{macron}", "[+nasal] > +N"]), (&["q > k"], &["[] > +x"]),
    // a boundary romaniser with a non-empty replacement: what it does to the marks that open a word must not depend on the word's place in the line
    (&[], &["$ > ·"]), (&[], &["$ > \\-", "a > A"]),
    // deromanisers whose string only occurs in a word after the reader has normalised it (`:` typed for `ː`, a precomposed tilde vowel): whether
    // they apply to a word must not depend on how the other words of the list are spelled
    (&["aː > u"], &[]), (&["a\u{303} > o", "aː > e"], &["o > O"])];
fn al_index(al: Al) -> i64 { ALIAS_SETS.iter().position(|x| *x == al).map(|x| x as i64).unwrap_or(-1) }
fn al_tag(al: Al) -> String { if al.0.is_empty() && al.1.is_empty() { String::new() } else { format!("|into {:?} from {:?}", al.0, al.1) } }
fn run(al: Al, rules: &[RuleGroup], words: &[String]) -> Out<Result<Vec<String>, String>> {
    let rl: usize = rules.iter().map(|g| g.rule[0].chars().count() + 1).sum();
    let wl: usize = words.iter().map(|w| w.chars().count() + 1).sum();
    let (i, f): (Vec<String>, Vec<String>) = (al.0.iter().map(|x| x.to_string()).collect(), al.1.iter().map(|x| x.to_string()).collect());
    guarded(budget_for(wl, rl) * 2, || asca::run(rules, words, &i, &f).map_err(|e| format!("{:?}", e)))
}

#[derive(Default)]
struct Acc { evals: u64, ok: u64, errs: u64, viols: Vec<Viol>, outs: std::collections::BTreeSet<u64> }
impl Acc { fn merge(&mut self, o: Acc) { self.evals += o.evals; self.ok += o.ok; self.errs += o.errs; self.viols.extend(o.viols); self.outs.extend(o.outs); } }

/// single-word results for this rule list, phase of failure: 0 ok, 1 parse (word syntax), 2 apply
fn singles(al: Al, rules: &[RuleGroup]) -> Vec<(Result<String, String>, u8)> {
    WORD_POOL.iter().map(|w| match run(al, rules, &[w.to_string()]) {
        Out::Ok(Ok(v)) => (Ok(v.join("\u{1}")), 0),
        Out::Ok(Err(e)) => { let ph = if e.starts_with("WordSyn") || e.starts_with("WordRun") { 1 } else { 2 }; (Err(e), ph) }
        o => (Err(format!("CRASH {}", o.crash_desc().unwrap())), 3),
    }).collect()
}

fn okw_all(single: &[(Result<String, String>, u8)]) -> Vec<usize> { (0..single.len()).filter(|i| single[*i].1 == 0).collect() }

fn check_rules(rule_texts: &[&str], a: &mut Acc) { check_rules_al(NO_ALIAS, rule_texts, a) }

fn check_rules_al(al: Al, rule_texts: &[&str], a: &mut Acc) {
    let rules = g(rule_texts);
    let single = singles(al, &rules);
    if single.iter().any(|s| s.1 == 3) { return; } // crashes are C02's
    let n = WORD_POOL.len();
    // all ordered lists of 1..=3 pool words
    let mut lists: Vec<Vec<usize>> = vec![];
    for i in 0..n { lists.push(vec![i]); for j in 0..n { lists.push(vec![i, j]); for k in 0..n { lists.push(vec![i, j, k]); } } }
    for l in &lists {
        a.evals += 1;
        let words: Vec<String> = l.iter().map(|i| WORD_POOL[*i].to_string()).collect();
        let got = match run(al, &rules, &words) { Out::Ok(x) => x, _ => continue };
        let first_parse = l.iter().find(|i| single[**i].1 == 1);
        let first_apply = l.iter().find(|i| single[**i].1 == 2);
        let key = || format!("list|{}|{}{}", rule_texts.join(" ;; "), words.join(" , "), al_tag(al));
        let case = || json!({"al": al_index(al), "kind": "list", "rules": rule_texts, "words": words});
        match (first_parse, first_apply) {
            (None, None) => {
                let want: Vec<String> = l.iter().map(|i| single[*i].0.clone().unwrap()).collect();
                match &got {
                    Ok(v) if *v == want => { a.ok += 1; a.outs.insert(hash64(v)); }
                    _ => a.viols.push(Viol { key: key(), desc: format!("run([{}], {:?}) = {:?}, but word by word it is {:?}", rule_texts.join(" ;; "), words, got, want), case: case() }),
                }
            }
            (Some(i), None) | (None, Some(i)) => {
                let want = single[*i].0.clone().unwrap_err();
                match &got {
                    Err(e) if *e == want => a.errs += 1,
                    _ => a.viols.push(Viol { key: key(), desc: format!("run([{}], {:?}) = {:?}, expected the error of the first failing word `{}`: {}", rule_texts.join(" ;; "), words, got, WORD_POOL[*i], want), case: case() }),
                }
            }
            // mixed phases: the statement does not rank them; only demand an error
            (Some(_), Some(_)) => match &got { Err(_) => a.errs += 1, Ok(v) => a.viols.push(Viol { key: key(), desc: format!("run returned Ok({:?}) although some words fail", v), case: case() }) },
        }
    }
    // lines of two words in which at least one word fails: the run fails, with the error of the first failing word (within one phase)
    for i in 0..n { for j in 0..n {
        if single[i].1 == 0 && single[j].1 == 0 { continue; }
        a.evals += 1;
        let line = format!("{} {}", WORD_POOL[i], WORD_POOL[j]);
        let fails: Vec<usize> = [i, j].into_iter().filter(|x| single[*x].1 != 0).collect();
        let same_phase = fails.iter().all(|x| single[*x].1 == single[fails[0]].1);
        let first = if let Some(p) = [i, j].into_iter().find(|x| single[*x].1 == 1) { p } else { fails[0] };
        let want = single[first].0.clone().unwrap_err();
        // a line that succeeds under these rules (if any) in front of it
        let good: Option<String> = (0..n).find(|x| single[*x].1 == 0).map(|x| WORD_POOL[x].to_string());
        let mut lists = vec![("alone", vec![line.clone()])];
        if let Some(g) = good { lists.push(("after-a-good-line", vec![g, line.clone()])); }
        for (which, list) in lists {
            match run(al, &rules, &list) {
                Out::Ok(Err(e)) if !same_phase || e == want => a.errs += 1,
                Out::Ok(x) => a.viols.push(Viol { key: format!("failing-line|{}|{}|{}{}", rule_texts.join(" ;; "), line, which, al_tag(al)), desc: format!("run([{}], {:?}) = {:?}, expected the error of the first failing word `{}`: {}", rule_texts.join(" ;; "), list, x, WORD_POOL[first], want), case: json!({"al": al_index(al), "kind": "failing-line", "rules": rule_texts, "line": line, "which": which}) }),
                _ => {}
            }
        }
    } }
    // lines with an empty word (leading space, two spaces in a row): the empty word keeps its slot
    if let Out::Ok(Ok(ev)) = run(al, &rules, &[String::new()]) { if ev.len() == 1 {
        let e = ev[0].clone();
        for &i in &okw_all(&single) { for &j in &okw_all(&single) {
            let (si, sj) = (single[i].0.clone().unwrap(), single[j].0.clone().unwrap());
            for (line, want) in [(format!(" {}", WORD_POOL[i]), format!("{} {}", e, si)), (format!("{}  {}", WORD_POOL[i], WORD_POOL[j]), format!("{} {} {}", si, e, sj)), (format!("  {} {}", WORD_POOL[i], WORD_POOL[j]), format!("{} {} {} {}", e, e, si, sj))] {
                if j != i && line.starts_with(' ') && !line.starts_with("  ") { continue; } // the leading-space line does not depend on j
                a.evals += 1;
                match run(al, &rules, &[line.clone()]) {
                    Out::Ok(Ok(v)) if v.len() == 1 && v[0] == want => { a.ok += 1; }
                    Out::Ok(x) => a.viols.push(Viol { key: format!("line|{}|{}{}", rule_texts.join(" ;; "), line, al_tag(al)), desc: format!("run([{}], [`{}`]) = {:?}, expected [`{}`] (an empty word keeps its slot)", rule_texts.join(" ;; "), line, x, want), case: json!({"al": al_index(al), "kind": "line", "rules": rule_texts, "line": line, "want": want}) }),
                    _ => {}
                }
            }
        } }
    } }
    // lines of two and three space-separated words
    let okw: Vec<usize> = (0..n).filter(|i| single[*i].1 == 0).collect();
    for &i in &okw { for &j in &okw {
        for third in std::iter::once(None).chain(okw.iter().map(|k| Some(*k))) {
            a.evals += 1;
            let mut line = format!("{} {}", WORD_POOL[i], WORD_POOL[j]);
            let mut want = format!("{} {}", single[i].0.clone().unwrap(), single[j].0.clone().unwrap());
            if let Some(k) = third { line += &format!(" {}", WORD_POOL[k]); want += &format!(" {}", single[k].0.clone().unwrap()); }
            // the tracer walks the same line word by word: the last state it prints (if it prints any) is the line's result as well
            if al == NO_ALIAS {
                if let Out::Ok(Ok(ts)) = guarded(budget_for(line.chars().count() + 4, rule_texts.iter().map(|r| r.chars().count() + 1).sum()) * 3, || asca::get_trace_string(&rules, line.clone(), &[])) {
                    if let Some(last) = ts.iter().rev().find(|l| l.contains("=>")) {
                        let after = last.splitn(2, "=>").nth(1).unwrap_or("").trim().to_string();
                        a.evals += 1;
                        if after != want.trim() { a.viols.push(Viol { key: format!("line-trace|{}|{}", rule_texts.join(" ;; "), line), desc: format!("get_trace_string([{}], `{}`) ends in `{}`, the words transformed one by one give `{}`", rule_texts.join(" ;; "), line, after, want), case: json!({"al": al_index(al), "kind": "line", "rules": rule_texts, "line": line}) }); }
                    }
                }
            }
            match run(al, &rules, &[line.clone()]) {
                Out::Ok(Ok(v)) if v.len() == 1 && v[0] == want => { a.ok += 1; }
                Out::Ok(x) => a.viols.push(Viol { key: format!("line|{}|{}{}", rule_texts.join(" ;; "), line, al_tag(al)), desc: format!("run([{}], [`{}`]) = {:?}, expected [`{}`]", rule_texts.join(" ;; "), line, x, want), case: json!({"al": al_index(al), "kind": "line", "rules": rule_texts, "line": line, "want": want}) }),
                _ => {}
            }
        }
    } }
}

pub fn run_check() -> i32 {
    let mut r = Report::new("C11");
    let thorough = r.thorough();
    r.rule = "rule lists = every single rule (thorough: every ordered pair) of a 43-rule pool, plus every ordered pair of 8 rules that raise errors on different words (alphas, variables, insertion, deletion, metathesis, tone, two that raise runtime errors); word lists = every ordered list of 1..3 words of a 13-word pool (incl. a word ending in a partial match of a two-element input and a word starting with a full match) (two fail at parse, two are the same word in americanist and in plain IPA spelling, some fail at apply depending on the rule), which contains all their permutations and sublists; lines `u v` and `u v w` for all pool pairs/triples of succeeding words; lines `u v` for all pool pairs in which a word fails (alone and after a good line); lines with an empty word (` u`, `u  v`, `  u v`). Oracle: len(out) == len(in), out[i] == run(R,[W[i]])[0], a line is the single-word results joined by one space, a failing list fails with the error of its first failing word (within one phase). Non-trivial = list of >= 2 words.".into();
    r.assumptions.push("lists mixing parse-phase and apply-phase failures only have to fail (run parses all words before applying any rule; the statement does not rank the phases)".into());
    let mut jobs: Vec<Vec<&str>> = RULE_POOL.iter().map(|x| vec![*x]).collect();
    if thorough { for a in RULE_POOL { for b in RULE_POOL { jobs.push(vec![a, b]); } } }
    // two rule groups that fail on different words at different stages (the error must be that of the first failing WORD, not of the earliest failing group)
    let failing = ["{p,t} > {b}", "% > a", "a > *", "i > %", "a > e", "t > *", "C > * / _#", "V > * / #_"];
    if !thorough { for a in failing { for b in failing { if a != b { jobs.push(vec![a, b]); } } } }
    let mut t = Acc::default();
    par_fold(jobs.len(), 1, Acc::default, |i, a| check_rules(&jobs[i], a), |a| t.merge(a));
    // the same with aliases in force: each entry still depends on its own line only
    let alias_rules: [&[&str]; 8] = [&[], &["a > e"], &["V > [+long] / _#"], &["% > [+stress] / #_"], &["t > d / V_V", "a > [+nasal] / _#"], &["%:[+stress] > [-stress]"], &["a > *"], &["C=1 V=2 > 2 1"]];
    let mut ajobs: Vec<(Al, &[&str])> = vec![];
    for al in ALIAS_SETS { for rl in alias_rules { ajobs.push((al, rl)); } }
    let mut ta = Acc::default();
    par_fold(ajobs.len(), 1, Acc::default, |i, a| check_rules_al(ajobs[i].0, ajobs[i].1, a), |a| ta.merge(a));
    r.boxes.push(json!({"box": "rule lists x word lists / lines with aliases in force (6 alias sets x 8 rule lists)", "jobs": ajobs.len(), "comparisons": ta.evals, "ok": ta.ok, "error_lists": ta.errs}));
    r.guard(ta.ok > 10_000, "alias jobs: more than 10k lists succeed");
    t.merge(ta);
    r.evaluations = t.evals; r.transitions = t.evals; r.validated = t.ok + t.errs; r.nontrivial = t.ok; r.states = t.outs;
    r.outcome("ok_lists_and_lines", t.ok); r.outcome("error_lists", t.errs);
    r.boxes.push(json!({"box": "rule lists x word lists / lines", "rule_lists": jobs.len(), "comparisons": t.evals, "ok": t.ok, "error_lists": t.errs}));
    r.guard(t.ok > 10_000 && t.errs > 1_000, "both succeeding and failing lists occur");
    r.sample(json!({"rules": ["C=1 V=2 > 2 1"], "words": ["ta.pi", "p#a", "pa"]})); r.sample(json!({"rules": ["a > e"], "line": "pa ta.pi ła.ta"}));
    for v in t.viols { r.viol(v); }
    r.finish()
}

pub fn replay(case: &Value) -> Result<String, String> {
    let rules: Vec<&str> = case["rules"].as_array().ok_or("rules")?.iter().map(|x| x.as_str().unwrap_or("")).collect();
    let mut a = Acc::default();
    let al = case["al"].as_i64().filter(|x| *x >= 0).map(|x| ALIAS_SETS[x as usize]).unwrap_or(NO_ALIAS);
    check_rules_al(al, &rules, &mut a);
    let want_key = match case["kind"].as_str() { Some("failing-line") => format!("failing-line|{}|{}|{}", rules.join(" ;; "), case["line"].as_str().unwrap_or(""), case["which"].as_str().unwrap_or("")), Some("line") => format!("line|{}|{}", rules.join(" ;; "), case["line"].as_str().unwrap_or("")), _ => format!("list|{}|{}", rules.join(" ;; "), case["words"].as_array().map(|v| v.iter().map(|x| x.as_str().unwrap_or("")).collect::<Vec<_>>().join(" , ")).unwrap_or_default()) };
    let want_key = format!("{}{}", want_key, al_tag(al));
    match a.viols.iter().find(|v| v.key == want_key) { Some(v) => Err(v.desc.clone()), None => Ok("independent and in order".into()) }
}
