pub mod c18;
