pub mod c05;
pub mod c03;
pub mod c04;
pub mod c18;
pub mod c06;
