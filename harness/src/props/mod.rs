pub mod c04;
pub mod c18;
