//! C19 — the command line gives the library's answers and converts files losslessly.
use crate::cli::*;
use crate::formats;
use crate::util::*;
use asca::{ASCAError, RuleGroup};
use serde_json::{json, Value};

#[derive(Clone, Debug)]
struct Project { groups: Vec<RuleGroup>, words: Vec<String>, into: Vec<String>, from: Vec<String> }

fn rsca_text(groups: &[RuleGroup], layout: usize) -> String {
    // layout bits: 1 indent rules, 2 blank line between rules, 4 blank line between groups, 8 no space after @/#
    let mut s = String::new();
    for (gi, g) in groups.iter().enumerate() {
        if gi > 0 && layout & 4 != 0 { s.push('\n'); }
        s += &if layout & 8 != 0 { format!("@{}\n", g.name) } else { format!("@ {}\n", g.name) };
        for (ri, r) in g.rule.iter().enumerate() {
            if ri > 0 && layout & 2 != 0 { s.push('\n'); }
            s += &format!("{}{}\n", if layout & 1 != 0 { "    " } else { "" }, r);
        }
        if !g.description.is_empty() { for d in g.description.split('\n') { s += &if layout & 8 != 0 { format!("#{}\n", d) } else { format!("# {}\n", d) }; } }
    }
    s
}
fn wsca_text(words: &[(String, Option<&str>)]) -> String {
    words.iter().map(|(w, c)| match c { Some(c) => format!("{}    # {}", w, c), None => w.clone() }).collect::<Vec<_>>().join("\n")
}
fn alias_text(into: &[String], from: &[String], sections: u8, layout: usize) -> String {
    // alias lines are indented in the same layouts in which rules are (bit 1)
    let ind = if layout & 1 != 0 { "    " } else { "" };
    let mut s = String::new();
    if sections & 1 != 0 { s += "@into\n"; for l in into { s += &format!("{}{}\n", ind, l); } }
    if sections & 2 != 0 { s += "@from\n"; for l in from { s += &format!("{}{}\n", ind, l); } }
    s
}
fn lib_run(p: &Project) -> Result<Vec<String>, String> {
    match guarded(5_000_000, || asca::run(&p.groups, &p.words, &p.into, &p.from)) { Out::Ok(Ok(v)) => Ok(v), Out::Ok(Err(e)) => Err(format!("{:?}", e)), o => Err(o.crash_desc().unwrap()) }
}
fn json_of(p: &Project) -> Value { json!({"into": p.into, "from": p.from, "words": p.words, "rules": p.groups.iter().map(|g| json!({"name": g.name, "rule": g.rule, "description": g.description})).collect::<Vec<_>>()}) }

fn projects(thorough: bool) -> Vec<(Project, Vec<(String, Option<&'static str>)>, u8)> {
    let names = ["", "Lenition", "Grimm's law 2"];
    let rule_sets: Vec<Vec<&str>> = vec![vec!["p > b / V_V"], vec!["t > d / V_V", "a > e / _#"], vec!["[+cons, -voice] > [+voice] / _$"]];
    let descs = ["", "one line", "first line\nsecond line", "first line\n\nthird line after an empty one"];
    let word_lists: Vec<Vec<(String, Option<&'static str>)>> = vec![
        vec![("pa.ta".into(), None), ("pa\u{303}.ta".into(), None)],
        vec![("a.pa".into(), Some("gloss")), ("ta.ta pa".into(), None), ("".into(), Some("only a comment")), ("ˈpa.pa".into(), None)],
        vec![("".into(), None), ("pat".into(), None), ("".into(), None), ("ka.ta".into(), Some("x # y"))],
    ];
    let aliases: Vec<(Vec<&str>, Vec<&str>, u8)> = vec![(vec![], vec![], 0), (vec!["q > k"], vec![], 1), (vec![], vec!["b > B", "$ > *"], 2), (vec!["q > k", "tt > t:[+long]"], vec!["d > D"], 3),
        // alias lines that begin with a named escape (`@{..}`), next to the `@into` / `@from` section tags
        (vec!["@{tilde} > n", "q > k"], vec!["d > D"], 3), (vec!["x > k", "@{acute}a > a:[+stress]"], vec![], 1)];
    let mut out = vec![];
    let ngroups = if thorough { 3 } else { 2 };
    // every combination of (name, rules, description) per group for up to ngroups groups, cycling the rest
    let mut combos: Vec<Vec<(usize, usize, usize)>> = vec![];
    let single: Vec<(usize, usize, usize)> = (0..3).flat_map(|n| (0..3).flat_map(move |r| (0..4).map(move |d| (n, r, d)))).collect();
    for a in &single { combos.push(vec![*a]); }
    for a in &single { for b in &single { if thorough || (a.0 + a.1 * 2 + b.2 + b.0) % 4 == 0 { combos.push(vec![*a, *b]); } } }
    if ngroups == 3 { for (i, a) in single.iter().enumerate() { for (j, b) in single.iter().enumerate() { for (k, c) in single.iter().enumerate() { if (i + 2 * j + 3 * k) % 23 == 0 { combos.push(vec![*a, *b, *c]); } } } } }
    for (ci, combo) in combos.iter().enumerate() {
        let groups: Vec<RuleGroup> = combo.iter().map(|(n, r, d)| RuleGroup { name: names[*n].to_string(), rule: rule_sets[*r].iter().map(|s| s.to_string()).collect(), description: descs[*d].to_string() }).collect();
        let wl = &word_lists[ci % word_lists.len()];
        let (into, from, sec) = &aliases[(ci / 2) % aliases.len()];
        let words: Vec<String> = wl.iter().map(|w| w.0.clone()).collect();
        out.push((Project { groups, words, into: into.iter().map(|s| s.to_string()).collect(), from: from.iter().map(|s| s.to_string()).collect() }, wl.clone(), *sec));
    }
    out
}

#[derive(Default)]
struct Acc { evals: u64, procs: u64, ok: u64, viols: Vec<Viol> }
impl Acc { fn merge(&mut self, o: Acc) { self.evals += o.evals; self.procs += o.procs; self.ok += o.ok; self.viols.extend(o.viols); } }

fn norm_json(v: &Value) -> Value {
    // into/from default to [] when absent
    let mut o = v.clone();
    for k in ["into", "from"] { if o.get(k).is_none() { o[k] = json!([]); } }
    o
}

fn project_case(n: usize, p: &Project, wl: &[(String, Option<&str>)], sections: u8, layout: usize, a: &mut Acc) {
    let sb = Sandbox::new("c19", n);
    let key = |what: &str| format!("{}|layout{}|groups={:?}", what, layout, p.groups.iter().map(|g| (g.name.clone(), g.rule.len(), g.description.lines().count())).collect::<Vec<_>>());
    let case = || json!({"kind": "project", "n": n, "layout": layout});
    sb.write("in.rsca", &rsca_text(&p.groups, layout));
    sb.write("in.wsca", &wsca_text(wl));
    if sections != 0 { sb.write("in.alias", &alias_text(&p.into, &p.from, sections, layout)); }
    // the harness's own readers must read the files back as the model (guards the generator)
    let rd_groups = formats::parse_rsca(&rsca_text(&p.groups, layout));
    if rd_groups.iter().map(|g| (&g.name, &g.rule, &g.description)).collect::<Vec<_>>() != p.groups.iter().map(|g| (&g.name, &g.rule, &g.description)).collect::<Vec<_>>() { a.viols.push(Viol { key: "MACHINERY-generator".into(), desc: format!("harness reader disagrees with generator for layout {}", layout), case: case() }); return; }
    // (1) asca run -o
    a.evals += 1;
    let mut args = vec!["run", "-r", "in.rsca", "-w", "in.wsca", "-o", "out.wsca"];
    if sections != 0 { args.extend(["-l", "in.alias"]); }
    let o = run_cli(&sb.dir, &args); a.procs += 1;
    let want = lib_run(p);
    match (&want, sb.read("out.wsca")) {
        (Ok(w), Some(got)) if o.code == Some(0) && got == w.join("\n") => a.ok += 1,
        (Err(_), None) => a.ok += 1,
        (w, got) => a.viols.push(Viol { key: key("run-output"), desc: format!("`asca run` wrote {:?} (exit {:?}), the library gives {:?}; stdout: {}", got, o.code, w, o.stdout.replace('\n', " | ")), case: case() }),
    }
    // (1b) the same run over an output file that already exists and is LONGER (left by a run on more words): answering `y` to the
    // overwrite question must leave exactly the new result in the file
    if let Ok(w) = &want {
        a.evals += 1;
        let mut stale = w.join("\n"); stale.push_str("\nstale.line.one\nstale.line.two\nand.a.third");
        sb.write("over.wsca", &stale);
        let mut args = vec!["run", "-r", "in.rsca", "-w", "in.wsca", "-o", "over.wsca"];
        if sections != 0 { args.extend(["-l", "in.alias"]); }
        let o = run_cli_stdin(&sb.dir, &args, "y\n"); a.procs += 1;
        match sb.read("over.wsca") {
            Some(got) if o.code == Some(0) && got == w.join("\n") => a.ok += 1,
            got => a.viols.push(Viol { key: key("run-overwrite"), desc: format!("`asca run -o` over an existing longer file (answer y) left {:?} (exit {:?}), the library gives {:?}", got, o.code, w), case: case() }),
        }
    }
    // (1c) `run -c <file>`: the comparison table printed next to an older word list still shows every result, whether that list is as long as the
    // result, shorter or longer (the right-hand column is the library's answer, line by line)
    if let Ok(w) = &want {
        for (which, cmp_lines) in [("same-length", w.clone()), ("shorter", w.iter().take(w.len() / 2).cloned().collect::<Vec<_>>()), ("longer", { let mut v = w.clone(); v.push("xa.xa".into()); v.push("ko".into()); v })] {
            a.evals += 1;
            sb.write("cmp.wsca", &cmp_lines.join("\n"));
            let mut args = vec!["run", "-r", "in.rsca", "-w", "in.wsca", "-c", "cmp.wsca"];
            if sections != 0 { args.extend(["-l", "in.alias"]); }
            let o = run_cli(&sb.dir, &args); a.procs += 1;
            let body: Vec<&str> = o.stdout.lines().skip_while(|l| !l.contains("OUTPUT")).skip(1).collect();
            // the table proper starts after the blank line that follows the header
            let rows: Vec<&str> = if body.first().map(|l| l.trim().is_empty()).unwrap_or(false) { body[1..].to_vec() } else { body.clone() };
            let printed: Vec<String> = rows.iter().map(|l| if l.trim().is_empty() { String::new() } else { l.rsplit_once('|').map(|x| x.1.trim().to_string()).unwrap_or_else(|| "<no separator>".into()) }).collect();
            let n = w.len();
            let ok = o.code == Some(0) && printed.len() >= n && printed.iter().take(n).zip(w.iter()).all(|(p, x)| p == x.trim()) && printed.len() == n.max(cmp_lines.len());
            if ok { a.ok += 1; } else { a.viols.push(Viol { key: key(&format!("run-compare-{}", which)), desc: format!("`asca run -c` with a {} comparison file ({} lines for {} results) printed the right-hand column {:?} (exit {:?}), the library gives {:?}", which, cmp_lines.len(), n, printed, o.code, w), case: case() }); }
        }
    }
    // (2) conv asca == model
    a.evals += 1;
    let mut args = vec!["conv", "asca", "-w", "in.wsca", "-r", "in.rsca", "-o", "p.json"];
    if sections != 0 { args.extend(["-a", "in.alias"]); }
    let o = run_cli(&sb.dir, &args); a.procs += 1;
    let j1: Option<Value> = sb.read("p.json").and_then(|s| serde_json::from_str(&s).ok());
    let model = json_of(p);
    match &j1 {
        Some(j) if norm_json(j) == model => a.ok += 1,
        other => { a.viols.push(Viol { key: key("conv-asca"), desc: format!("`conv asca` produced {:?} (exit {:?}), the project is {}", other, o.code, model), case: case() }); return; }
    }
    // (3) json -> rsca/wsca/alias -> json is the identity (well-formed: no trailing blank word)
    let well_formed = p.words.last().map(|w| !w.is_empty()).unwrap_or(true);
    a.evals += 1;
    let o2 = run_cli(&sb.dir, &["conv", "json", "-p", "p.json", "-w", "o.wsca", "-r", "o.rsca", "-a", "o.alias"]); a.procs += 1;
    let mut args = vec!["conv", "asca", "-w", "o.wsca", "-r", "o.rsca", "-o", "q.json"];
    let has_alias = sb.read("o.alias").is_some();
    if has_alias { args.extend(["-a", "o.alias"]); }
    let o3 = run_cli(&sb.dir, &args); a.procs += 1;
    let j2: Option<Value> = sb.read("q.json").and_then(|s| serde_json::from_str(&s).ok());
    match &j2 {
        Some(j) if norm_json(j) == model => a.ok += 1,
        Some(_) if !well_formed => a.ok += 1,
        other => a.viols.push(Viol { key: key("round-trip"), desc: format!("json -> files -> json changed the project: {:?} (exits {:?} {:?}; files {:?}); expected {}", other, o2.code, o3.code, sb.list("."), model), case: case() }),
    }
    // `asca run -j p.json` (json project as input) and `-j` with `-w` overriding the words
    a.evals += 1;
    let _ = run_cli(&sb.dir, &["run", "-j", "p.json", "-o", "outj.wsca"]); a.procs += 1;
    match (&want, sb.read("outj.wsca")) { (Ok(w), Some(g)) if g == w.join("\n") => a.ok += 1, (Err(_), None) => a.ok += 1, (w, g) => a.viols.push(Viol { key: key("run-json"), desc: format!("`asca run -j` wrote {:?}, the library gives {:?}", g, w), case: case() }) }
    // the same in a directory that holds, besides the json, exactly one unrelated word file (left over from an earlier command): without -w the
    // json's own words are the input, whatever else lies around
    if let Some(pj) = sb.read("p.json") {
        a.evals += 1;
        sb.write("jonly/p.json", &pj);
        sb.write("jonly/stray.wsca", "ki.ki\nko");
        let _ = run_cli(&sb.dir.join("jonly"), &["run", "-j", "p.json", "-o", "outj.wsca"]); a.procs += 1;
        match (&want, sb.read("jonly/outj.wsca")) { (Ok(w), Some(g)) if g == w.join("\n") => a.ok += 1, (Err(_), None) => a.ok += 1, (w, g) => a.viols.push(Viol { key: key("run-json-stray-word-file"), desc: format!("`asca run -j` in a directory that also holds one unrelated word file wrote {:?}, the library gives {:?} for the json's own words", g, w), case: case() }) }
    }
    // `-o <existing directory>`: the manual says an out.wsca is created in that directory; it holds the library's answer, and nothing is written
    // elsewhere. Run in a directory of its own (an existing out.wsca next to it would make the command prompt)
    if let (Some(rt), Some(wt)) = (sb.read("in.rsca"), sb.read("in.wsca")) {
        a.evals += 1;
        sb.write("od/in.rsca", &rt); sb.write("od/in.wsca", &wt); sb.write("od/outdir/.keep", "");
        let mut oargs = vec!["run", "-r", "in.rsca", "-w", "in.wsca", "-o", "outdir"];
        if sections != 0 { if let Some(at) = sb.read("in.alias") { sb.write("od/in.alias", &at); } oargs.extend(["-l", "in.alias"]); }
        let _ = run_cli(&sb.dir.join("od"), &oargs); a.procs += 1;
        let stray: Vec<String> = sb.list("od").into_iter().filter(|f| f != "in.rsca" && f != "in.wsca" && f != "in.alias" && f != "outdir").collect();
        match (&want, sb.read("od/outdir/out.wsca")) {
            (Ok(w), Some(g)) if g == w.join("\n") && stray.is_empty() => a.ok += 1,
            (Err(_), None) if stray.is_empty() => a.ok += 1,
            (w, g) => a.viols.push(Viol { key: key("run-output-directory"), desc: format!("`asca run -o outdir` (an existing directory): outdir/out.wsca holds {:?}, the library gives {:?}; files that appeared elsewhere: {:?}", g, w, stray), case: case() }),
        }
    }
    a.evals += 1;
    sb.write("other.wsca", "ta.pa\n\nˈpat   # x");
    let _ = run_cli(&sb.dir, &["run", "-j", "p.json", "-w", "other.wsca", "-o", "outjw.wsca"]); a.procs += 1;
    let mut p2 = p.clone(); p2.words = vec!["ta.pa".into(), "".into(), "ˈpat".into()];
    let want2 = lib_run(&p2);
    match (&want2, sb.read("outjw.wsca")) { (Ok(w), Some(g)) if g == w.join("\n") => a.ok += 1, (Err(_), None) => a.ok += 1, (w, g) => a.viols.push(Viol { key: key("run-json-words"), desc: format!("`asca run -j -w` wrote {:?}, the library gives {:?}", g, w), case: case() }) }
    // the written files give the library the same answer
    if want.is_ok() {
        a.evals += 1;
        let mut args = vec!["run", "-r", "o.rsca", "-w", "o.wsca", "-o", "out2.wsca"];
        if has_alias { args.extend(["-l", "o.alias"]); }
        let _ = run_cli(&sb.dir, &args); a.procs += 1;
        match (want, sb.read("out2.wsca")) { (Ok(w), Some(g)) if g == w.join("\n") => a.ok += 1, (w, g) => a.viols.push(Viol { key: key("run-after-round-trip"), desc: format!("running the converted files gives {:?}, the library gives {:?}", g, w), case: case() }) }
    }
}

/// line-kind state machine of the .rsca reader: self-consistency of conv asca . conv json . conv asca
fn line_kind_case(n: usize, seq: &[usize], a: &mut Acc) {
    let kinds = ["@ Name", "# a description", "", "a > e", "    t > d / V_V", "#"];
    let text: String = seq.iter().enumerate().map(|(i, k)| if *k == 0 { format!("@ Name{}", i) } else { kinds[*k].to_string() }).collect::<Vec<_>>().join("\n");
    let sb = Sandbox::new("c19l", n);
    sb.write("in.rsca", &text); sb.write("in.wsca", "pa.ta\nat");
    a.evals += 1;
    let o1 = run_cli(&sb.dir, &["conv", "asca", "-w", "in.wsca", "-r", "in.rsca", "-o", "a.json"]); a.procs += 1;
    let Some(j1) = sb.read("a.json").and_then(|s| serde_json::from_str::<Value>(&s).ok()) else { a.viols.push(Viol { key: format!("linekinds-conv-failed|{:?}", seq), desc: format!("conv asca failed on {:?}: exit {:?} {}", text, o1.code, o1.stderr), case: json!({"kind": "lines", "seq": seq}) }); return };
    let _ = run_cli(&sb.dir, &["conv", "json", "-p", "a.json", "-w", "b.wsca", "-r", "b.rsca", "-a", "b.alias"]); a.procs += 1;
    let _ = run_cli(&sb.dir, &["conv", "asca", "-w", "b.wsca", "-r", "b.rsca", "-o", "c.json"]); a.procs += 1;
    let j3 = sb.read("c.json").and_then(|s| serde_json::from_str::<Value>(&s).ok());
    // groups that are entirely empty cannot survive a file round trip (nothing is written for them): drop them on both sides
    let strip = |v: &Value| -> Vec<Value> { v["rules"].as_array().cloned().unwrap_or_default().into_iter().filter(|g| !(g["name"] == "" && g["rule"].as_array().map(|x| x.is_empty()).unwrap_or(true) && g["description"] == "")).collect() };
    match j3 { Some(j) if strip(&j) == strip(&j1) => a.ok += 1, other => a.viols.push(Viol { key: format!("linekinds-not-idempotent|{:?}", seq), desc: format!("rsca {:?}: conv asca gives {}, after conv json and conv asca again {:?}", text, j1["rules"], other.map(|x| x["rules"].clone())), case: json!({"kind": "lines", "seq": seq}) }) }
    // documented layouts must also agree with the harness's reader
    let documented = { let mut ok = !seq.is_empty() && seq[0] == 0; let mut st = 0; for k in seq { match (st, *k) { (_, 0) => st = 1, (1, 3) | (1, 4) | (1, 2) => {}, (1, 1) | (2, 1) | (2, 5) => st = 2, (2, 2) | (3, 2) => st = 3, _ => ok = false } } ok };
    if documented {
        a.evals += 1;
        let mine: Vec<Value> = formats::parse_rsca(&text).iter().map(|g| json!({"name": g.name, "rule": g.rule, "description": g.description})).collect();
        if j1["rules"].as_array().cloned().unwrap_or_default() == mine { a.ok += 1; } else { a.viols.push(Viol { key: format!("linekinds-documented-layout|{:?}", seq), desc: format!("documented layout {:?} read as {}, the manual's reading is {:?}", text, j1["rules"], mine), case: json!({"kind": "lines", "seq": seq}) }); }
    }
}

pub fn run() -> i32 {
    let mut r = Report::new("C19");
    if !cli_available() { r.machinery_errors.push(format!("{} not built", cli())); return r.finish(); }
    let thorough = r.thorough();
    r.rule = "every generated project (1-2 (3) rule groups x name {empty, word, words with punctuation} x 1-2 rules x description {none, one line, two lines, three lines with an empty one in the middle}; word lists with comments, comment-only and blank lines, multi-word lines; alias files with neither / either / both sections, lines that begin with a named escape `@{..}`, indented and not) serialised to .rsca in every documented layout (indent, blank line between rules, blank line between groups, space after @/#): the real `asca` binary is run in a fresh directory: `run -o` output == asca::run(model), also when the output file already exists and is longer (answer `y`), also with the project given as json (`-j`, with and without `-w`); `conv asca` json == model; json -> `conv json` -> files -> `conv asca` -> json is the identity; running the converted files gives the same words. Plus the .rsca reader as a line state machine: every sequence of <= N line kinds {@name, #desc, blank, rule, indented rule, bare #}: conv asca . conv json . conv asca == conv asca, and agreement with the manual's reading on documented layouts. Non-trivial = comparisons that held.".into();
    let projs = projects(thorough);
    let layouts: Vec<usize> = if thorough { (0..16).collect() } else { vec![0, 1, 7, 13] };
    let jobs: Vec<(usize, usize)> = (0..projs.len()).flat_map(|i| layouts.iter().map(move |l| (i, *l))).collect();
    let mut t = Acc::default();
    par_fold(jobs.len(), 1, Acc::default, |i, a| { let (pi, l) = jobs[i]; project_case(i, &projs[pi].0, &projs[pi].1, projs[pi].2, l, a) }, |a| t.merge(a));
    r.boxes.push(json!({"box": "projects x layouts", "projects": projs.len(), "layouts": layouts.len(), "comparisons": t.evals, "cli_processes": t.procs, "held": t.ok}));
    let nmax = if thorough { 6 } else { 4 };
    let mut seqs: Vec<Vec<usize>> = vec![];
    for n in 1..=nmax { for idx in 0..6usize.pow(n as u32) { let mut q = idx; let mut s = vec![]; for _ in 0..n { s.push(q % 6); q /= 6; } seqs.push(s); } }
    let mut t2 = Acc::default();
    par_fold(seqs.len(), 4, Acc::default, |i, a| line_kind_case(i, &seqs[i], a), |a| t2.merge(a));
    r.boxes.push(json!({"box": format!("rsca line-kind sequences <= {}", nmax), "files": seqs.len(), "comparisons": t2.evals, "cli_processes": t2.procs, "held": t2.ok}));
    // errors: for a faulty rule line, alias line (either section, at every index, next to differing lines of the other section) or word, `asca run`
    // prints what the library returns for those files: the formatted error of asca::run, line for line
    let mut t3 = Acc::default();
    {
        let strip = |s: &str| -> Vec<String> { s.lines().map(|l| l.trim_end().to_string()).filter(|l| !l.trim().is_empty()).collect() };
        let rules_ok = "@ one\n    a > e\n@ two\n    t > d / V_V\n"; let words_ok = "pa.ta\nta\n";
        let mut cases: Vec<(String, String, Option<String>)> = vec![];
        // alias faults: the faulty line at index k of its section, the other section holding different lines (more of them, and fewer)
        for fault in ["ŋ > [+foo]", "q >", "x > a:[-long, +overlong]"] { for k in 0..3usize { for other in [vec!["ng > ŋ", "sh > ʃ", "ch > t͡ʃ", "kh > x"], vec!["sh > ʃ"], vec![]] {
            for into_faulty in [true, false] {
                let good_into = ["sh > ʃ", "c > k", "ph > f"]; let good_from = ["ʃ > sh", "k > c", "f > ph"];
                let mut mine: Vec<String> = (if into_faulty { good_into } else { good_from }).iter().map(|x| x.to_string()).collect();
                let f = if into_faulty { fault.to_string() } else { let mut p = fault.splitn(2, " >"); let l = p.next().unwrap_or(""); format!("{} > {}", if l == "x" { "a:[-long, +overlong]" } else if l == "q" { "" } else { "[+foo]" }, if l == "q" { "" } else { "x" }).trim().to_string() };
                mine.insert(k.min(mine.len()), f);
                let theirs: Vec<String> = if into_faulty { other.iter().map(|l| { let mut p = l.splitn(2, " > "); let a = p.next().unwrap(); let b = p.next().unwrap(); format!("{} > {}", b, a) }).collect() } else { other.iter().map(|x| x.to_string()).collect() };
                let (into, from) = if into_faulty { (mine, theirs) } else { (theirs, mine) };
                let al = format!("@into\n{}\n@from\n{}\n", into.iter().map(|l| format!("    {}", l)).collect::<Vec<_>>().join("\n"), from.iter().map(|l| format!("    {}", l)).collect::<Vec<_>>().join("\n"));
                cases.push((rules_ok.to_string(), words_ok.to_string(), Some(al)));
            }
        } } }
        for fault in ["a > [+foo]", "a > ", "V > [Aback] / _", "a = b"] { for at in 0..2usize {
            let rs = if at == 0 { format!("@ one\n    {}\n@ two\n    t > d / V_V\n", fault) } else { format!("@ one\n    a > e\n@ two\n    t > d / V_V\n    {}\n", fault) };
            cases.push((rs, words_ok.to_string(), None));
        } }
        for w in ["pa.ta\np#a\n", "ˈ\nta\n", "ta\na12345\n"] { cases.push((rules_ok.to_string(), w.to_string(), None)); }
        for (n, (rs, ws, al)) in cases.iter().enumerate() {
            let sb = Sandbox::new("c19e", n);
            sb.write("in.rsca", rs); sb.write("in.wsca", ws); if let Some(a) = al { sb.write("in.alias", a); }
            let groups = formats::parse_rsca(rs); let words = formats::parse_wsca(ws);
            let (into, from) = match al { Some(a) => formats::parse_alias(a), None => (vec![], vec![]) };
            let mut args = vec!["run", "-r", "in.rsca", "-w", "in.wsca"]; if al.is_some() { args.extend(["-l", "in.alias"]); }
            let o = run_cli(&sb.dir, &args); t3.procs += 1; t3.evals += 1;
            let lib = guarded(5_000_000, || asca::run(&groups, &words, &into, &from));
            let Out::Ok(Err(e)) = lib else { continue };   // not every combination is an error (a faulty target is only met when a word uses its string)
            let shown = match guarded(1_000_000, || match &e { asca::Error::AliasSyn(_) | asca::Error::AliasRun(_) => e.format_alias_error(&into, &from), asca::Error::WordSyn(_) | asca::Error::WordRun(_) => e.format_word_error(&words), _ => e.format_rule_error(&groups) }) { Out::Ok(t) => t, _ => continue };
            let want = strip(&shown); let got = strip(&format!("{}\n{}", o.stdout, o.stderr));
            if !want.is_empty() && want.iter().all(|l| got.contains(l)) { t3.ok += 1; } else {
                t3.viols.push(Viol { key: format!("run-error-display|{}|{}|{}", rs.replace('\n', "⏎"), ws.replace('\n', "⏎"), al.clone().unwrap_or_default().replace('\n', "⏎")), desc: format!("`asca run` on files the library rejects with {:?}: the library's formatted error is {:?}; the command printed {:?} (exit {:?})", e, want, got, o.code), case: json!({"kind": "errors"}) });
            }
        }
        cleanup("c19e");
        r.boxes.push(json!({"box": "errors: what `asca run` prints for a faulty rule / alias / word file is the library's formatted error", "cases": t3.evals, "cli_processes": t3.procs, "held": t3.ok}));
        r.guard(t3.ok > 40, "error display box: more than 40 cases held");
    }
    cleanup("c19"); cleanup("c19l");
    r.guard(t.ok > 500 && t2.ok > 500, "more than 500 comparisons held in each box");
    r.evaluations = t.evals + t2.evals + t3.evals; r.transitions = t.procs + t2.procs + t3.procs; r.validated = t.ok + t2.ok + t3.ok; r.nontrivial = r.validated; r.states_count_override = Some((jobs.len() + seqs.len()) as u64);
    r.sample(json!({"rsca": rsca_text(&projs[projs.len() / 2].0.groups, 7)})); r.sample(json!({"wsca": wsca_text(&projs[1].1)}));
    for v in t.viols.into_iter().chain(t2.viols).chain(t3.viols) { if v.key.starts_with("MACHINERY") { r.machinery_errors.push(v.desc.clone()); } else { r.viol(v); } }
    r.finish()
}

pub fn replay(case: &Value) -> Result<String, String> {
    let mut a = Acc::default();
    match case["kind"].as_str() {
        Some("lines") => { let seq: Vec<usize> = case["seq"].as_array().ok_or("seq")?.iter().map(|x| x.as_u64().unwrap_or(0) as usize).collect(); line_kind_case(0, &seq, &mut a); }
        Some("project") => {
            let n = case["n"].as_u64().unwrap_or(0) as usize; let layout = case["layout"].as_u64().unwrap_or(0) as usize;
            for thorough in [false, true] {
                let projs = projects(thorough);
                let layouts: Vec<usize> = if thorough { (0..16).collect() } else { vec![0, 1, 7, 13] };
                let jobs: Vec<(usize, usize)> = (0..projs.len()).flat_map(|i| layouts.iter().map(move |l| (i, *l))).collect();
                if let Some((pi, l)) = jobs.get(n) { if *l == layout { project_case(n, &projs[*pi].0, &projs[*pi].1, projs[*pi].2, *l, &mut a); break; } }
            }
        }
        _ => return Err("unknown case".into()),
    }
    cleanup("c19"); cleanup("c19l");
    match a.viols.first() { Some(v) => Err(v.desc.clone()), None => Ok("the command line agrees with the library".into()) }
}
