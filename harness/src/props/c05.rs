//! C05 — stress, length and tone modifiers follow the manual's three-way tables.
use crate::model;
use crate::util::*;
use asca::verif as av;
use serde_json::{json, Value};

const TONES: [u16; 4] = [0, 5, 51, 1234];
/// modifier: long, overlong, stress, sec.stress in {0 absent, 1 +, 2 -}; tone None or Some
#[derive(Clone, Copy, Debug, PartialEq)]
struct Md { long: u8, over: u8, stress: u8, sec: u8, tone: Option<u16> }
#[derive(Clone, Copy, Debug, PartialEq)]
struct St { len: u8, stress: u8, tone: u16 }

fn md_text(m: &Md) -> Vec<String> {
    let pm = |v: u8| if v == 1 { "+" } else { "-" };
    let mut v = vec![];
    if m.long != 0 { v.push(format!("{}long", pm(m.long))); }
    if m.over != 0 { v.push(format!("{}overlong", pm(m.over))); }
    if m.stress != 0 { v.push(format!("{}stress", pm(m.stress))); }
    if m.sec != 0 { v.push(format!("{}sec.stress", pm(m.sec))); }
    if let Some(t) = m.tone { v.push(format!("tone:{}", t)); }
    v
}
fn all_mods(with_length: bool) -> Vec<Md> {
    let mut v = vec![];
    let lens: Vec<u8> = if with_length { vec![0, 1, 2] } else { vec![0] };
    for &long in &lens { for &over in &lens { for stress in 0..3 { for sec in 0..3 {
        for tone in [None, Some(0u16), Some(5), Some(51), Some(1234)] {
            let m = Md { long, over, stress, sec, tone };
            if md_text(&m).is_empty() { continue; }
            v.push(m);
        }
    } } } }
    v
}
// ---- the table model (doc.md §Stress, §Length, §Tone)
fn matches(m: &Md, s: &St) -> bool {
    (match m.long { 1 => s.len >= 2, 2 => s.len == 1, _ => true })
        && (match m.over { 1 => s.len == 3, 2 => s.len <= 2, _ => true })
        && (match m.stress { 1 => s.stress != 0, 2 => s.stress == 0, _ => true })
        && (match m.sec { 1 => s.stress == 2, 2 => s.stress != 2, _ => true })
        && m.tone.map(|t| t == s.tone).unwrap_or(true)
}
fn contradictory(m: &Md) -> bool { (m.long == 2 && m.over == 1) || (m.stress == 2 && m.sec == 1) }
/// accept-sets after setting `m` on state `s`
fn set_accept(m: &Md, s: &St) -> (Vec<u8>, Vec<u8>, u16) {
    let len = match (m.long, m.over) {
        (0, 0) => vec![s.len],
        (1, 0) => vec![s.len.max(2)],
        (2, 0) => vec![1],
        (0, 1) => vec![3],
        (0, 2) => vec![s.len.min(2)],
        (1, 1) => vec![3],
        (1, 2) => vec![2],
        (2, 2) => vec![1],
        _ => vec![],
    };
    let stress = match (m.stress, m.sec) {
        (0, 0) => vec![s.stress],
        (1, 0) => if s.stress == 2 { vec![1, 2] } else { vec![1] },
        (2, 0) => vec![0],
        (0, 1) => vec![2],
        (0, 2) => if s.stress == 2 { vec![0, 1] } else { vec![s.stress] },
        (1, 1) => vec![2],
        (1, 2) => vec![1],
        (2, 2) => vec![0],
        _ => vec![],
    };
    (len, stress, m.tone.unwrap_or(s.tone))
}

#[derive(Clone, Copy, Debug, PartialEq)]
/// Set: the group as the first alternative of a two-member set, in the input and in the output (`{V:[m], k} > {[+nasal], k}`, `{V, k} > {[m], k}`)
/// IpaOut (output role only): the vowel replaced by the literal with the modifier, `V > a:[m]` — a literal is short unless the modifier says otherwise
enum Kind { Ipa, Group, Matrix, Syll, Set, IpaOut }
const KINDS: [Kind; 6] = [Kind::Ipa, Kind::Group, Kind::Matrix, Kind::Syll, Kind::Set, Kind::IpaOut];

fn elem_text(k: Kind, m: Option<&Md>) -> String {
    let mods = m.map(md_text).unwrap_or_default();
    match k {
        Kind::Ipa => if mods.is_empty() { "a".into() } else { format!("a:[{}]", mods.join(", ")) },
        Kind::Group => if mods.is_empty() { "V".into() } else { format!("V:[{}]", mods.join(", ")) },
        Kind::Matrix => { let mut v = vec!["+syll".to_string()]; v.extend(mods); format!("[{}]", v.join(", ")) }
        Kind::Syll => if mods.is_empty() { "%".into() } else { format!("%:[{}]", mods.join(", ")) },
        Kind::Set => if mods.is_empty() { "{V, k}".into() } else { format!("{{V:[{}], k}}", mods.join(", ")) },
        Kind::IpaOut => "V".into(),
    }
}
fn rule_text(k: Kind, input_role: bool, m: &Md) -> String {
    if input_role {
        let marker = if k == Kind::Syll { "[tone:7]" } else if k == Kind::Set { "{[+nasal], k}" } else { "[+nasal]" };
        format!("{} > {}", elem_text(k, Some(m)), marker)
    } else if k == Kind::IpaOut {
        format!("V > a:[{}]", md_text(m).join(", "))
    } else if k == Kind::Set {
        format!("{} > {{[{}], k}}", elem_text(k, None), md_text(m).join(", "))
    } else {
        format!("{} > [{}]", elem_text(k, None), md_text(m).join(", "))
    }
}

/// three syllables: /t/ (tone 3) . target syllable . /k/ ; target /a/ of the given length
/// first, middle or last among /s/, /n/
fn build(s: &St, pos: usize) -> CW {
    let a = seg("a");
    let run: Vec<SegBits> = (0..s.len).map(|_| a).collect();
    let (sg, ng) = (seg("s"), seg("n"));
    let mut mid = vec![];
    match pos { 0 => { mid.extend(run); mid.push(sg); mid.push(ng); } 1 => { mid.push(sg); mid.extend(run); mid.push(ng); } _ => { mid.push(sg); mid.push(ng); mid.extend(run); } }
    vec![CSyl { segs: vec![seg("t")], stress: 0, tone: 3 }, CSyl { segs: mid, stress: s.stress, tone: s.tone }, CSyl { segs: vec![seg("k")], stress: 0, tone: 0 }]
}
fn run_at(w: &CW, pos: usize) -> (usize, usize) {
    // (start, len) of the a-run in syllable 1, tolerant of nasalisation
    let a = seg("a"); let an = model::set_feat(a, 6, true);
    let segs = &w[1].segs;
    let start = match pos { 0 => 0, 1 => 1, _ => 2 };
    let mut n = 0;
    while start + n < segs.len() && (segs[start + n] == a || segs[start + n] == an) { n += 1; }
    (start, n)
}

/// Ok(nontrivial) or Err(description)
fn judge(k: Kind, input_role: bool, m: &Md, s: &St, pos: usize, got: &Out<Result<CW, String>>) -> Result<bool, String> {
    let w = build(s, pos);
    let got = match got { Out::Ok(g) => g, o => return Err(o.crash_desc().unwrap()) };
    let a = seg("a"); let an = model::set_feat(a, 6, true);
    if input_role {
        if k == Kind::Syll {
            // every syllable is a candidate: marker tone 7 where the modifier matches
            let mut e = w.clone();
            for sy in e.iter_mut() { if matches(m, &St { len: 1, stress: sy.stress, tone: sy.tone }) { sy.tone = 7; } }
            return match got {
                Ok(g) if *g == e => Ok(e != w),
                Err(_) if contradictory(m) => Ok(false),
                Ok(g) => Err(format!("expected /{}/, got /{}/", show_cw(&e), show_cw(g))),
                Err(x) => Err(format!("expected /{}/, got error {}", show_cw(&e), x)),
            };
        }
        let mut e = w.clone();
        let hit = matches(m, s);
        if hit { for b in e[1].segs.iter_mut() { if *b == a { *b = an; } } }
        match got {
            Ok(g) if *g == e => Ok(hit),
            Err(_) if contradictory(m) => Ok(false),
            Ok(g) => Err(format!("modifier {} state {:?}: expected /{}/, got /{}/", if hit { "matches" } else { "does not match" }, s, show_cw(&e), show_cw(g))),
            Err(x) => Err(format!("expected /{}/, got error {}", show_cw(&e), x)),
        }
    } else {
        if contradictory(m) {
            return match got { Err(_) => Ok(true), Ok(g) => Err(format!("contradictory modifier must be an error, got /{}/", show_cw(g))) };
        }
        let g = match got { Ok(g) => g, Err(x) => return Err(format!("expected Ok, got error {}", x)) };
        if g.len() != 3 { return Err(format!("syllable count changed: /{}/", show_cw(g))); }
        if k == Kind::Syll {
            for i in 0..3 {
                let st = St { len: 1, stress: w[i].stress, tone: w[i].tone };
                let (_, sa, t) = set_accept(m, &st);
                if g[i].segs != w[i].segs || !sa.contains(&g[i].stress) || g[i].tone != t {
                    return Err(format!("syllable {}: accept stress {:?} tone {}, got /{}/", i, sa, t, show_cw(g)));
                }
            }
            return Ok(*g != w);
        }
        if g[0] != w[0] || g[2] != w[2] { return Err(format!("another syllable changed: /{}/", show_cw(g))); }
        let (la, sa, t) = if k == Kind::IpaOut { let (la, _, _) = set_accept(m, &St { len: 1, stress: s.stress, tone: s.tone }); let (_, sa, t) = set_accept(m, s); (la, sa, t) } else { set_accept(m, s) };
        let (start, n) = run_at(g, pos);
        // frame: the other segments of the syllable
        let mut rest = g[1].segs.clone();
        rest.drain(start..start + n);
        let mut wrest = w[1].segs.clone();
        let (ws, wn) = run_at(&w, pos);
        wrest.drain(ws..ws + wn);
        if rest != wrest || g[1].segs[start..start + n].iter().any(|b| *b != a) {
            return Err(format!("segments other than the target changed: /{}/", show_cw(g)));
        }
        if !la.contains(&(n as u8)) { return Err(format!("length {} -> {} but the table allows {:?}: /{}/", s.len, n, la, show_cw(g))); }
        if !sa.contains(&g[1].stress) { return Err(format!("stress {} -> {} but the table allows {:?}", s.stress, g[1].stress, sa)); }
        if g[1].tone != t { return Err(format!("tone {} -> {} but the table says {}", s.tone, g[1].tone, t)); }
        // the state reached must be matched by the same modifier
        if !matches(m, &St { len: n as u8, stress: g[1].stress, tone: g[1].tone }) { return Err("resulting state is not matched by the modifier that set it".into()); }
        Ok(*g != w)
    }
}

fn key(k: Kind, input_role: bool, m: &Md, s: &St, pos: usize) -> String {
    format!("{:?}|{}|[{}]|len{},stress{},tone{}|pos{}", k, if input_role { "in" } else { "out" }, md_text(m).join(","), s.len, s.stress, s.tone, pos)
}

struct Acc { evals: u64, nt: u64, hits: u64, viols: Vec<Viol>, outs: std::collections::BTreeSet<u64> }
fn acc() -> Acc { Acc { evals: 0, nt: 0, hits: 0, viols: vec![], outs: Default::default() } }

fn run_one(c: &av::Compiled, w: &CW, text: &str) -> Out<Result<CW, String>> {
    guarded(budget_for(10, text.chars().count()), || av::apply_group(c, 0, word_of(w)).map(|x| cw_of(&x)).map_err(|e| format!("{:?}", e)))
}

pub fn run() -> i32 {
    let mut r = Report::new("C05");
    r.rule = "states (length 1..3) x (unstressed, primary, secondary) x tone {0,5,51,1234} x every {absent,+,-}^4 x tone{absent,0,5,51,1234} modifier, as input modifier on IPA `a:[m]`, group `V:[m]`, matrix `[+syll,m]`, `%:[m]` (stress/tone part) with a marker output, and as output matrix `X > [m]`; target first / middle / last in the middle syllable of a three-syllable word; context-free rules and, for the middle position, the same rules with the context `/ s _ n`; compared with the table model (accept-sets where the manual only constrains). Non-trivial = the model predicts a change.".into();
    r.assumptions.push("contradictory input modifiers may either never match or be reported as an error (the manual demands an error only for setting)".into());
    // (kind, role, modifier, with a one-item context on each side — only meaningful for the middle position)
    let mut jobs: Vec<(Kind, bool, Md, bool)> = vec![];
    for k in KINDS { for role in [true, false] { if k == Kind::IpaOut && role { continue; } for m in all_mods(k != Kind::Syll) { jobs.push((k, role, m, false)); if k != Kind::Syll { jobs.push((k, role, m, true)); } } } }
    let mut tot = acc();
    par_fold(jobs.len(), 8, acc, |i, a| {
        let (k, role, m, ctx) = jobs[i];
        let text = if ctx { format!("{} / s _ n", rule_text(k, role, &m)) } else { rule_text(k, role, &m) };
        let compiled = match guarded(5_000_000, || av::compile(&[group(&[&text])])) {
            Out::Ok(Ok(c)) => c,
            Out::Ok(Err(e)) => {
                if contradictory(&m) { a.evals += 1; return; }
                a.viols.push(Viol { key: format!("compile|{}", text), desc: format!("`{}` rejected: {:?}", text, e), case: json!({"rule": text}) }); return;
            }
            o => { a.viols.push(Viol { key: format!("compile-crash|{}", text), desc: o.crash_desc().unwrap(), case: json!({"rule": text}) }); return; }
        };
        for len in 1..=3u8 { for stress in 0..3u8 { for tone in TONES { for pos in 0..3 {
            if ctx && pos != 1 { continue; }
            let s = St { len, stress, tone };
            let w = build(&s, pos);
            a.evals += 1;
            let got = run_one(&compiled, &w, &text);
            match judge(k, role, &m, &s, pos, &got) {
                Ok(nt) => { if nt { a.nt += 1; } if let Out::Ok(Ok(g)) = &got { a.outs.insert(hash64(g)); } }
                Err(d) => a.viols.push(Viol { key: key(k, role, &m, &s, pos), desc: format!("`{}` on /{}/: {}", text, show_cw(&w), d),
                    case: json!({"rule": text, "kind": format!("{:?}", k), "input_role": role, "mod": [m.long, m.over, m.stress, m.sec, m.tone], "state": [len, stress, tone], "pos": pos}) }),
            }
        } } } }
    }, |a| { tot.evals += a.evals; tot.nt += a.nt; tot.viols.extend(a.viols); tot.outs.extend(a.outs); });
    // ---- box 2: the same modifiers on an element of the environment: before the target (matched on the mirrored word) and after it, as a
    // context and as an exception. `k > [+voice] / E:[m] _` on /t3.sn<a-run>.k/ and `t > [+voice] / _ E:[m]` on /t3.<a-run>sn.k/
    let mut ejobs: Vec<(Kind, Md, u8)> = vec![];
    // sides 0-3: context / exception, before / after; 4-5: the element followed / preceded by a second item (`_ E:[m] s`, `n E:[m] _`), so that the whole
    // long segment has to be stepped over; 6-7: the context of an insertion (`* > i / E:[m] _`, `* > i / _ E:[m]`), whose scan moves copy by copy
    for k in KINDS { if k == Kind::Set || k == Kind::IpaOut { continue; } for m in all_mods(k != Kind::Syll) { if contradictory(&m) { continue; } for side in 0..8u8 { if side >= 4 && k == Kind::Syll { continue; } ejobs.push((k, m, side)); } } }
    let mut te = acc();
    par_fold(ejobs.len(), 8, acc, |i, a| {
        let (k, m, side) = ejobs[i];
        let before = side % 2 == 0; let exception = side == 2 || side == 3;
        let el = elem_text(k, Some(&m));
        let text = match side {
            4 => format!("k > [+voice] / n {} _", el), 5 => format!("t > [+voice] / _ {} s", el),
            6 => format!("* > i / {} _", el), 7 => format!("* > i / _ {}", el),
            _ => format!("{} > [+voice] {} {}", if before { "k" } else { "t" }, if exception { "|" } else { "/" }, if before { format!("{} _", el) } else { format!("_ {}", el) }),
        };
        let Out::Ok(Ok(compiled)) = guarded(5_000_000, || av::compile(&[group(&[&text])])) else { a.viols.push(Viol { key: format!("compile|{}", text), desc: format!("`{}` does not compile", text), case: json!({"rule": text}) }); return; };
        for len in 1..=3u8 { for stress in 0..3u8 { for tone in TONES {
            let st = St { len, stress, tone };
            // a plain IPA item that says nothing about length, on a long segment, with a further item behind it: how much of the segment it
            // stands for is not documented (see C03), not claimed
            if side >= 4 && k == Kind::Ipa && m.long == 0 && m.over == 0 && len > 1 { continue; }
            // insertion sites in the middle of the syllable (which syllable an insertion at a boundary joins is a separate question)
            let wpos = if side >= 6 { 1 } else if before { 2 } else { 0 };
            let w = build(&st, wpos);
            let hit = matches(&m, &st);
            let fires = hit != exception;
            let mut e = w.clone();
            if fires && side >= 6 {
                // the inserted /i/ goes next to the run, inside its syllable
                let (start, n) = run_at(&w, wpos);
                e[1].segs.insert(if before { start + n } else { start }, seg("i"));
            } else if fires { let (sy, sg) = if before { (2, 0) } else { (0, 0) }; e[sy].segs[sg] = model::set_feat(e[sy].segs[sg], 11, true); }
            a.evals += 1;
            match run_one(&compiled, &w, &text) {
                Out::Ok(Ok(g)) if g == e => { if fires { a.nt += 1; } a.outs.insert(hash64(&g)); }
                Out::Ok(Ok(g)) => a.viols.push(Viol { key: format!("env|{:?}|{}|{}|len{},stress{},tone{}", k, ["ctx-before", "ctx-after", "exc-before", "exc-after", "ctx-before-2", "ctx-after-2", "ins-before", "ins-after"][side as usize], md_text(&m).join(","), len, stress, tone), desc: format!("`{}` on /{}/: the element {} the state (length {}, stress {}, tone {}), expected /{}/, got /{}/", text, show_cw(&w), if hit { "matches" } else { "does not match" }, len, stress, tone, show_cw(&e), show_cw(&g)), case: json!({"env": true, "rule": text, "word": cw_json(&w), "expected": cw_json(&e)}) }),
                Out::Ok(Err(er)) => a.viols.push(Viol { key: format!("env|{:?}|{}|{}|error", k, side, md_text(&m).join(",")), desc: format!("`{}` on /{}/: error {}", text, show_cw(&w), er), case: json!({"env": true, "rule": text, "word": cw_json(&w), "expected": cw_json(&e)}) }),
                o => a.viols.push(Viol { key: format!("env|crash|{}", text), desc: o.crash_desc().unwrap(), case: json!({"env": true, "rule": text, "word": cw_json(&w), "expected": cw_json(&e)}) }),
            }
            // the same insertion with the long segment at the edge of the word (first / last segment of a one-syllable word): the scan that moves
            // copy by copy has nothing in front of the segment to tell where it starts; the site at the word edge belongs to the only syllable
            if side >= 6 {
                let a_seg = seg("a"); let n_seg = seg("n");
                let mut segs: Vec<SegBits> = vec![]; if before { segs.push(n_seg); } for _ in 0..len { segs.push(a_seg); } if !before { segs.push(n_seg); }
                let w: CW = vec![CSyl { segs, stress, tone }];
                let mut e = w.clone();
                if fires { if before { e[0].segs.push(seg("i")); } else { e[0].segs.insert(0, seg("i")); } }
                a.evals += 1;
                match run_one(&compiled, &w, &text) {
                    Out::Ok(Ok(g)) if g == e => { if fires { a.nt += 1; } a.outs.insert(hash64(&g)); }
                    Out::Ok(Ok(g)) => a.viols.push(Viol { key: format!("env-edge|{:?}|{}|{}|len{},stress{},tone{}", k, side, md_text(&m).join(","), len, stress, tone), desc: format!("`{}` on /{}/ (long segment at the word edge): the element {} the state (length {}, stress {}, tone {}), expected /{}/, got /{}/", text, show_cw(&w), if hit { "matches" } else { "does not match" }, len, stress, tone, show_cw(&e), show_cw(&g)), case: json!({"env": true, "rule": text, "word": cw_json(&w), "expected": cw_json(&e)}) }),
                    Out::Ok(Err(er)) => a.viols.push(Viol { key: format!("env-edge|{:?}|{}|{}|error", k, side, md_text(&m).join(",")), desc: format!("`{}` on /{}/: error {}", text, show_cw(&w), er), case: json!({"env": true, "rule": text, "word": cw_json(&w), "expected": cw_json(&e)}) }),
                    o => a.viols.push(Viol { key: format!("env-edge|crash|{}", text), desc: o.crash_desc().unwrap(), case: json!({"env": true, "rule": text, "word": cw_json(&w), "expected": cw_json(&e)}) }),
                }
            }
        } } }
    }, |a| { te.evals += a.evals; te.nt += a.nt; te.viols.extend(a.viols); te.outs.extend(a.outs); });
    r.boxes.push(json!({"box": "modifiers on an environment element (before / after the target, context / exception)", "rules": ejobs.len(), "cases": te.evals, "fired": te.nt}));
    r.guard(te.nt * 10 > te.evals, "environment box: at least 10% of the cases fire");
    tot.evals += te.evals; tot.nt += te.nt; tot.viols.extend(te.viols); tot.outs.extend(te.outs);
    // ---- box 4: a length modifier on a variable inside an OUTPUT STRUCTURE (`⟨C V=1⟩ > ⟨p 1:[m]⟩`): the captured vowel is written back with the
    // length the table gives for its own length and the modifier
    {
        let mods: [(&str, fn(usize) -> usize); 7] = [("+long", |l| l.max(2)), ("-long", |_| 1), ("+overlong", |_| 3), ("-overlong", |l| l.min(2)), ("+long, -overlong", |_| 2), ("+long, +overlong", |_| 3), ("-long, -overlong", |_| 1)];
        let mut t4 = acc();
        for (m, f) in mods { for shape in 0..3usize { for len in 1..=3usize { for stress in 0..3u8 { for tone in TONES {
            let (text, before, after): (String, Vec<&str>, Vec<&str>) = match shape { 0 => (format!("⟨C V=1⟩ > ⟨p 1:[{}]⟩", m), vec!["t"], vec![]), 1 => (format!("⟨V=1 C⟩ > ⟨1:[{}] p⟩", m), vec![], vec!["t"]), _ => (format!("⟨C V=1 C⟩ > ⟨p 1:[{}] p⟩", m), vec!["t"], vec!["n"]) };
            let Out::Ok(Ok(compiled)) = guarded(5_000_000, || av::compile(&[group(&[&text])])) else { t4.viols.push(Viol { key: format!("compile|{}", text), desc: format!("`{}` does not compile", text), case: json!({"rule": text}) }); continue; };
            let a = seg("a");
            let mut segs: Vec<SegBits> = before.iter().map(|x| seg(x)).collect(); for _ in 0..len { segs.push(a); } segs.extend(after.iter().map(|x| seg(x)));
            let w: CW = vec![CSyl { segs, stress, tone }];
            let mut es: Vec<SegBits> = before.iter().map(|_| seg("p")).collect(); for _ in 0..f(len) { es.push(a); } es.extend(after.iter().map(|_| seg("p")));
            let e: CW = vec![CSyl { segs: es, stress, tone }];
            t4.evals += 1;
            match run_one(&compiled, &w, &text) {
                Out::Ok(Ok(g)) if g == e => { t4.nt += 1; t4.outs.insert(hash64(&g)); }
                Out::Ok(Ok(g)) => t4.viols.push(Viol { key: format!("struct-var-length|{}|len{}", text, len), desc: format!("`{}` on /{}/: a vowel of length {} written back with [{}] has length {} by the table, expected /{}/, got /{}/", text, show_cw(&w), len, m, f(len), show_cw(&e), show_cw(&g)), case: json!({"env": true, "rule": text, "word": cw_json(&w), "expected": cw_json(&e)}) }),
                Out::Ok(Err(er)) => t4.viols.push(Viol { key: format!("struct-var-length|{}|error", text), desc: format!("`{}` on /{}/: error {}", text, show_cw(&w), er), case: json!({"env": true, "rule": text, "word": cw_json(&w), "expected": cw_json(&e)}) }),
                o => t4.viols.push(Viol { key: format!("struct-var-length|crash|{}", text), desc: o.crash_desc().unwrap(), case: json!({"env": true, "rule": text, "word": cw_json(&w), "expected": cw_json(&e)}) }),
            }
        } } } } }
        r.boxes.push(json!({"box": "length modifiers on a variable inside an output structure (7 modifiers x 3 shapes x 36 states)", "cases": t4.evals, "as_table": t4.nt}));
        r.guard(t4.evals > 700, "box 4 ran");
        tot.evals += t4.evals; tot.nt += t4.nt; tot.viols.extend(t4.viols); tot.outs.extend(t4.outs);
    }
    // ---- box 5: a literal with a length modifier INSIDE a structure, as input (`⟨s a:[m] n⟩ > [tone: 7]`) and in a context
    // (`k > [+voice] / ⟨s a:[m] n⟩ _`): the structure matches the syllable iff the table says the modifier matches the vowel's length
    {
        let mods: [(&str, fn(u8) -> bool); 7] = [("+long", |l| l >= 2), ("-long", |l| l == 1), ("+overlong", |l| l == 3), ("-overlong", |l| l <= 2), ("+long, -overlong", |l| l == 2), ("+long, +overlong", |l| l == 3), ("-long, -overlong", |l| l == 1)];
        let mut t5 = acc();
        for (m, f) in mods { for form in 0..3u8 { for len in 1..=3u8 { for stress in 0..3u8 { for tone in TONES {
            let text = match form { 0 => format!("⟨s a:[{}] n⟩ > [tone: 7]", m), 1 => format!("k > [+voice] / ⟨s a:[{}] n⟩ _", m), _ => format!("t > [+voice] / _ ⟨s a:[{}] n⟩", m) };
            let Out::Ok(Ok(compiled)) = guarded(5_000_000, || av::compile(&[group(&[&text])])) else { t5.viols.push(Viol { key: format!("compile|{}", text), desc: format!("`{}` does not compile", text), case: json!({"rule": text}) }); continue; };
            let st = St { len, stress, tone };
            let w = build(&st, 1);
            let mut e = w.clone();
            if f(len) { match form { 0 => e[1].tone = 7, 1 => e[2].segs[0] = model::set_feat(e[2].segs[0], 11, true), _ => e[0].segs[0] = model::set_feat(e[0].segs[0], 11, true) } }
            t5.evals += 1;
            match run_one(&compiled, &w, &text) {
                Out::Ok(Ok(g)) if g == e => { if f(len) { t5.nt += 1; } t5.outs.insert(hash64(&g)); }
                Out::Ok(Ok(g)) => t5.viols.push(Viol { key: format!("struct-literal-length|{}|len{}", text, len), desc: format!("`{}` on /{}/: the vowel has length {}, so the structure {}; expected /{}/, got /{}/", text, show_cw(&w), len, if f(len) { "matches" } else { "does not match" }, show_cw(&e), show_cw(&g)), case: json!({"env": true, "rule": text, "word": cw_json(&w), "expected": cw_json(&e)}) }),
                Out::Ok(Err(er)) => t5.viols.push(Viol { key: format!("struct-literal-length|{}|error", text), desc: format!("`{}` on /{}/: error {}", text, show_cw(&w), er), case: json!({"env": true, "rule": text, "word": cw_json(&w), "expected": cw_json(&e)}) }),
                o => t5.viols.push(Viol { key: format!("struct-literal-length|crash|{}", text), desc: o.crash_desc().unwrap(), case: json!({"env": true, "rule": text, "word": cw_json(&w), "expected": cw_json(&e)}) }),
            }
        } } } } }
        r.boxes.push(json!({"box": "a literal with a length modifier inside a structure (input, context before, context after) x 7 modifiers x 36 states", "cases": t5.evals, "matched": t5.nt}));
        r.guard(t5.nt > 200, "box 5: more than 200 matching cases");
        tot.evals += t5.evals; tot.nt += t5.nt; tot.viols.extend(t5.viols); tot.outs.extend(t5.outs);
    }
    // ---- box 3: two neighbouring targets in one rule, the first output changing the length of its target (so that the second target moves), written
    // as a matrix, as the literal, and through a variable: `V=1 n > 1:[-long] [+long]` on /t3.s<a-run>n.k/ — each target ends up as the table says
    let first_outs: [(&str, &str, u8); 9] = [("V", "[-long]", 2), ("V", "[+long]", 1), ("V", "[+overlong]", 3), ("V", "[-overlong]", 4), ("V", "a", 2), ("V", "a:[+long]", 5), ("V=1", "1:[-long]", 2), ("V=1", "1:[+long]", 1), ("V=1", "1:[-overlong]", 4)];
    let second_outs: [(&str, u8); 4] = [("[+long]", 1), ("[-long]", 2), ("[+overlong]", 3), ("[+voice]", 0)];
    let mut t3 = acc();
    for (fi, fo, fk) in first_outs { for (so, sk) in second_outs {
        let text = format!("{} n > {} {}", fi, fo, so);
        let Out::Ok(Ok(compiled)) = guarded(5_000_000, || av::compile(&[group(&[&text])])) else { t3.viols.push(Viol { key: format!("compile|{}", text), desc: format!("`{}` does not compile", text), case: json!({"rule": text}) }); continue; };
        for len in 1..=3u8 { for stress in 0..3u8 { for tone in TONES {
            let st = St { len, stress, tone };
            let w = build(&st, 1);
            let lenf = |k: u8, l: usize| -> usize { match k { 1 => l.max(2), 2 => 1, 3 => 3, 4 => l.min(2), 5 => 2, _ => l } };
            let (a, n) = (seg("a"), seg("n"));
            let na = lenf(fk, len as usize);
            let nn = lenf(sk, 1);
            let nseg = if so == "[+voice]" { model::set_feat(n, 11, true) } else { n };
            let mut mid = vec![seg("s")]; mid.extend(std::iter::repeat(a).take(na)); mid.extend(std::iter::repeat(nseg).take(nn));
            let mut e = w.clone(); e[1].segs = mid;
            t3.evals += 1;
            match run_one(&compiled, &w, &text) {
                Out::Ok(Ok(g)) if g == e => { if e != w { t3.nt += 1; } t3.outs.insert(hash64(&g)); }
                Out::Ok(Ok(g)) => t3.viols.push(Viol { key: format!("two-targets|{}|len{},stress{},tone{}", text, len, stress, tone), desc: format!("`{}` on /{}/: the vowel becomes {} cop{} long and the /n/ {}, i.e. /{}/; got /{}/", text, show_cw(&w), na, if na == 1 { "y" } else { "ies" }, nn, show_cw(&e), show_cw(&g)), case: json!({"env": true, "rule": text, "word": cw_json(&w), "expected": cw_json(&e)}) }),
                Out::Ok(Err(er)) => t3.viols.push(Viol { key: format!("two-targets|{}|error", text), desc: format!("`{}` on /{}/: error {}", text, show_cw(&w), er), case: json!({"env": true, "rule": text, "word": cw_json(&w), "expected": cw_json(&e)}) }),
                o => t3.viols.push(Viol { key: format!("two-targets|crash|{}", text), desc: o.crash_desc().unwrap(), case: json!({"env": true, "rule": text, "word": cw_json(&w), "expected": cw_json(&e)}) }),
            }
        } } }
    } }
    r.boxes.push(json!({"box": "two neighbouring targets, the first changing length (matrix / literal / variable outputs)", "rules": first_outs.len() * second_outs.len(), "cases": t3.evals, "changed": t3.nt}));
    tot.evals += t3.evals; tot.nt += t3.nt; tot.viols.extend(t3.viols); tot.outs.extend(t3.outs);
    r.evaluations = tot.evals; r.transitions = tot.evals; r.validated = tot.evals; r.nontrivial = tot.nt; r.states = tot.outs;
    r.boxes.push(json!({"box": "kinds x roles x modifiers x states x positions", "rules": jobs.len(), "cases": tot.evals, "model_predicts_change": tot.nt}));
    r.guard(tot.nt * 20 > tot.evals, "at least 5% of cases change the word");
    r.sample(json!({"rule": rule_text(Kind::Group, false, &Md { long: 1, over: 0, stress: 0, sec: 0, tone: None }), "word": show_cw(&build(&St { len: 2, stress: 1, tone: 51 }, 1)), "model": "length stays 2"}));
    r.sample(json!({"rule": rule_text(Kind::Syll, true, &Md { long: 0, over: 0, stress: 1, sec: 2, tone: Some(5) }), "word": show_cw(&build(&St { len: 1, stress: 1, tone: 5 }, 0))}));
    for v in tot.viols { r.viol(v); }
    r.finish()
}

pub fn replay(case: &Value) -> Result<String, String> {
    if case["env"].as_bool() == Some(true) {
        let text = case["rule"].as_str().ok_or("rule")?;
        let w = cw_from_json(&case["word"]).ok_or("word")?; let e = cw_from_json(&case["expected"]).ok_or("expected")?;
        let Out::Ok(Ok(c)) = guarded(5_000_000, || av::compile(&[group(&[text])])) else { return Err("does not compile".into()) };
        return match run_one(&c, &w, text) { Out::Ok(Ok(g)) if g == e => Ok("as the table predicts".into()), Out::Ok(Ok(g)) => Err(format!("expected /{}/, got /{}/", show_cw(&e), show_cw(&g))), Out::Ok(Err(x)) => Err(x), o => Err(o.crash_desc().unwrap()) };
    }
    let text = case["rule"].as_str().ok_or("no rule")?;
    let k = match case["kind"].as_str() { Some("Ipa") => Kind::Ipa, Some("Group") => Kind::Group, Some("Matrix") => Kind::Matrix, Some("Syll") => Kind::Syll, _ => return Err("compile-time case".into()) };
    let role = case["input_role"].as_bool().unwrap();
    let m = &case["mod"]; let s = &case["state"];
    let md = Md { long: m[0].as_u64().unwrap() as u8, over: m[1].as_u64().unwrap() as u8, stress: m[2].as_u64().unwrap() as u8, sec: m[3].as_u64().unwrap() as u8, tone: m[4].as_u64().map(|x| x as u16) };
    let st = St { len: s[0].as_u64().unwrap() as u8, stress: s[1].as_u64().unwrap() as u8, tone: s[2].as_u64().unwrap() as u16 };
    let pos = case["pos"].as_u64().unwrap() as usize;
    let c = match guarded(5_000_000, || av::compile(&[group(&[text])])) { Out::Ok(Ok(c)) => c, o => return Err(format!("compile: {:?}", o.crash_desc())) };
    let w = build(&st, pos);
    let got = run_one(&c, &w, text);
    judge(k, role, &md, &st, pos, &got).map(|_| format!("`{}` on /{}/ agrees with the table", text, show_cw(&w)))
}
