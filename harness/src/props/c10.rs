//! C10 — rule lists compose: staged == one-shot == regrouped.
use crate::bfs::{self, Step};
use crate::formats;
use crate::util::*;
use asca::RuleGroup;
use serde_json::{json, Value};

fn g1(rule: &str) -> RuleGroup { RuleGroup { name: String::new(), rule: vec![rule.to_string()], description: String::new() } }
fn run1(groups: &[RuleGroup], word: &str, into: &[String]) -> Out<Result<String, String>> {
    let total: usize = groups.iter().map(|g| g.rule.iter().map(|r| r.chars().count() + 1).sum::<usize>()).sum();
    guarded(budget_for(word.chars().count() + 8, total) * 2, || asca::run(groups, &[word.to_string()], into, &[]).map(|v| v.join("|")).map_err(|e| format!("{:?}", e)))
}
fn deamericanise(s: &str) -> String { s.replace('¢', "t͡s").replace('ƛ', "t͡ɬ").replace('λ', "d͡ɮ").replace('ł', "ɬ").replace('ñ', "ɲ") }

/// one-shot vs staged at split point k; Ok(None) = skipped (intermediate unrenderable / errors), Ok(Some(nontrivial))
fn staged_law(groups: &[RuleGroup], k: usize, word: &str, into: &[String]) -> Result<Option<bool>, (String, String)> {
    let one = run1(groups, word, into);
    let mid = run1(&groups[..k], word, into);
    if std::env::var("C10_DEBUG").is_ok() { eprintln!("one={:?} mid={:?}", one, mid); }
    let (one, mid) = match (one, mid) { (Out::Ok(a), Out::Ok(b)) => (a, b), _ => return Ok(None) }; // crashes are C02's
    let Ok(mid) = mid else { return Ok(None) }; // the prefix itself fails: then one-shot fails too (checked below)
    if mid.contains('\u{FFFD}') { return Ok(None); }
    let staged = match run1(&groups[k..], &mid, &[]) { Out::Ok(x) => x, _ => return Ok(None) };
    match (&one, &staged) {
        (Ok(a), Ok(b)) if a == b => Ok(Some(*a != word)),
        (Err(_), Err(_)) => Ok(Some(false)),
        (Ok(a), Ok(b)) if deamericanise(a) == deamericanise(b) => Err(("americanist-flag-lost".into(), format!("one-shot `{}` vs staged `{}` (intermediate `{}`): they differ only in americanist letters", a, b, mid))),
        _ => Err(("staged-differs".into(), format!("one-shot {:?} vs staged {:?} (intermediate `{}`, split after {} of {} groups)", one, staged, mid, k, groups.len()))),
    }
}

#[derive(Default)]
struct Acc { evals: u64, skipped: u64, nt: u64, viols: Vec<Viol> }
impl Acc { fn merge(&mut self, o: Acc) { self.evals += o.evals; self.skipped += o.skipped; self.nt += o.nt; self.viols.extend(o.viols); } }

fn all_groupings(rules: &[&str]) -> Vec<Vec<RuleGroup>> {
    let n = rules.len();
    let mut out = vec![];
    for mask in 0..(1usize << (n - 1)) {
        let mut gs: Vec<RuleGroup> = vec![];
        let mut cur: Vec<String> = vec![];
        for (i, r) in rules.iter().enumerate() {
            cur.push(r.to_string());
            if i + 1 == n || mask & (1 << i) != 0 { gs.push(RuleGroup { name: format!("g{}", gs.len()), rule: std::mem::take(&mut cur), description: String::new() }); }
        }
        out.push(gs.clone());
        for pos in 0..=gs.len() { let mut e = gs.clone(); e.insert(pos, RuleGroup { name: "empty".into(), rule: vec![], description: String::new() }); out.push(e); }
        // lines that hold no rule (a comment, a blank line, spaces) at every position inside every group, and as a group of their own
        for filler in [";; a note", "", "   "] {
            for gi in 0..gs.len() { for pos in 0..=gs[gi].rule.len() { let mut e = gs.clone(); e[gi].rule.insert(pos, filler.to_string()); out.push(e); } }
            let mut e = gs.clone(); e.insert(0, RuleGroup { name: "filler".into(), rule: vec![filler.to_string()], description: String::new() }); out.push(e);
        }
    }
    out
}

fn project_groups(root: &str) -> Option<(Vec<RuleGroup>, Vec<String>, Vec<String>)> {
    let rd = |p: &str| std::fs::read_to_string(format!("{}/{}", root, p)).ok();
    let mut groups = vec![];
    for f in ["germanic/setup.rsca", "germanic/pgmc/pre.rsca", "germanic/pgmc/early.rsca", "germanic/pgmc/late.rsca", "germanic/nwg/asdf.rsca", "germanic/wg/asdf.rsca"] { groups.extend(formats::parse_rsca(&rd(f)?)); }
    let mut words = vec![];
    for f in ["pie-uvular-common.wsca", "pie-pronouns.wsca"] { words.extend(formats::parse_wsca(&rd(f)?).into_iter().filter(|w| !w.is_empty())); }
    let (into, _) = formats::parse_alias(&rd("pie.alias")?);
    Some((groups, words, into))
}
fn project_groups_ii(root: &str) -> Option<(Vec<RuleGroup>, Vec<String>, Vec<String>)> {
    let rd = |p: &str| std::fs::read_to_string(format!("{}/{}", root, p)).ok();
    let mut groups = vec![];
    for f in ["indo-iranian/setup.rsca", "indo-iranian/pre-pii.rsca", "indo-iranian/to-pii.rsca"] { groups.extend(formats::parse_rsca(&rd(f)?)); }
    let mut words = vec![];
    for f in ["pie-uvular-common.wsca", "pie-pronouns.wsca", "indo-iranian/ii-lex.wsca"] { words.extend(formats::parse_wsca(&rd(f)?).into_iter().filter(|w| !w.is_empty())); }
    let (into, _) = formats::parse_alias(&rd("pie.alias")?);
    Some((groups, words, into))
}

pub fn run() -> i32 {
    let mut r = Report::new("C10");
    let thorough = r.thorough();
    r.rule = "(A) for every state s of the C08 BFS (reached by its shortest history h from seed w) and every rule r of the 66-rule alphabet: run(h.r)(w) vs run(r)(render(run(h)(w))) through the public API, whenever the intermediate rendering has no �; a separate box with americanist seed words and one with words typed with the ASCII shorthands ' , : ; over an alphabet that creates and removes the five americanist segments; (B) every history of <= n rules: every grouping into rule groups, with an empty group at every position and with a comment-only / blank / whitespace line at every position inside every group, vs one group per rule; (C) the shipped germanic and indo-iranian example projects (frozen copy and live copy): every split point of the concatenated rule-group list x every word. Non-trivial = the rules changed the word.".into();
    let all_rules: Vec<&str> = super::c08::RULES.to_vec();
    let no_edge = |_: &CW, _: usize, _: &Step| -> Vec<Viol> { vec![] };
    let no_state = |_: &CW| -> Option<(String, String)> { None };
    let mut states_total = 0u64;
    for (boxname, seeds_txt, depth) in [("plain seeds", super::c08::SEEDS.to_vec(), if thorough { 2 } else { 1 }), ("americanist seeds", vec!["ła.ta", "¢a", "ñaƛ.λa"], 2),
        // words typed with the ASCII shorthands for stress and length and no americanist letter: they must not behave as americanist input
        ("ascii-shorthand seeds", vec!["'ti.na", "ka:.ni", ",so.ti'na:", "an;i", "'ta:"], 2)] {
        // the americanist box uses a small alphabet that creates and removes the five americanist segments
        let rules: Vec<&str> = if boxname == "plain seeds" { all_rules.clone() } else { let mut v = vec!["ɬ > l", "l > ɬ", "ɲ > n", "n > ɲ", "t > t͡s / _a", "t͡s > t", "t͡ɬ > t", "d͡ɮ > l"]; v.extend(all_rules.iter().take(12)); v };
        let actions: Vec<Vec<String>> = rules.iter().map(|s| vec![s.to_string()]).collect();
        let seeds: Vec<CW> = seeds_txt.iter().map(|t| cw_of(&asca::verif::parse_word(t, None).unwrap())).collect();
        let (g, _) = bfs::explore(&seeds, &actions, 8, depth, 12, 8, &no_edge, &no_state);
        let n = g.states.len() * rules.len();
        let mut t = Acc::default();
        par_fold(n, 64, Acc::default, |i, a| {
            let sid = (i / rules.len()) as u32; let ri = i % rules.len();
            let path = g.path(sid);
            let root = g.root(sid) as usize;
            let mut groups: Vec<RuleGroup> = path.iter().map(|x| g1(rules[*x as usize])).collect();
            let k = groups.len();
            groups.push(g1(rules[ri]));
            if k == 0 { return; }
            a.evals += 1;
            match staged_law(&groups, k, seeds_txt[root], &[]) {
                Ok(None) => a.skipped += 1,
                Ok(Some(nt)) => if nt { a.nt += 1 },
                Err((class, d)) => {
                    let rl: Vec<&str> = groups.iter().map(|x| x.rule[0].as_str()).collect();
                    let key = if class == "americanist-flag-lost" { format!("{}|{}", class, boxname) } else { format!("{}|{}|{}", class, rl.join(" ;; "), seeds_txt[root]) };
                    a.viols.push(Viol { key, desc: format!("[{}] on `{}`: {}", rl.join(" ;; "), seeds_txt[root], d), case: json!({"kind": "staged", "rules": rl, "k": k, "word": seeds_txt[root]}) });
                }
            }
        }, |a| t.merge(a));
        r.boxes.push(json!({"box": format!("(A) BFS edges, {}", boxname), "states": g.states.len(), "edges_checked": t.evals, "skipped_unrenderable_or_error": t.skipped, "changed_word": t.nt, "failures": t.viols.len()}));
        if boxname == "plain seeds" { r.guard(t.evals > 10_000 && t.nt > 1000, "(A) more than 10k edges compared, 1000 non-trivial"); }
        r.evaluations += t.evals; r.nontrivial += t.nt; r.skip("intermediate unrenderable / prefix errors", t.skipped); states_total += g.states.len() as u64;
        for v in t.viols { r.viol(v); }
    }
    // (B) regrouping
    let rules = all_rules.clone();
    let pool: Vec<&str> = if thorough { rules.iter().copied().step_by(2).collect() } else { rules.clone() };
    let n = if thorough { 3 } else { 2 };
    let seeds_txt = super::c08::SEEDS;
    let count = pool.len().pow(n as u32);
    let mut t = Acc::default();
    par_fold(count, 32, Acc::default, |i, a| {
        let mut q = i; let mut h = vec![];
        for _ in 0..n { h.push(pool[q % pool.len()]); q /= pool.len(); }
        let gs = all_groupings(&h);
        for w in seeds_txt {
            let base = run1(&gs[0], w, &[]);
            let Out::Ok(base) = base else { continue };
            for alt in &gs[1..] {
                a.evals += 1;
                match run1(alt, w, &[]) {
                    Out::Ok(x) if x.is_ok() == base.is_ok() && (x.is_err() || x == base) => { if base.as_ref().map(|b| b != w).unwrap_or(false) { a.nt += 1; } }
                    Out::Ok(x) => a.viols.push(Viol { key: format!("regroup|{}|{}", h.join(" ;; "), w), desc: format!("[{}] on `{}`: grouped as {:?} gives {:?}, one rule per group gives {:?}", h.join(" ;; "), w, alt.iter().map(|g| g.rule.len()).collect::<Vec<_>>(), x, base), case: json!({"kind": "regroup", "rules": h, "word": w}) }),
                    _ => {}
                }
            }
        }
    }, |a| t.merge(a));
    r.boxes.push(json!({"box": format!("(B) regroupings of every history of {} rules over {} rules", n, pool.len()), "histories": count, "comparisons": t.evals, "changed_word": t.nt, "failures": t.viols.len()}));
    r.evaluations += t.evals; r.nontrivial += t.nt;
    for v in t.viols { r.viol(v); }
    // (C) example projects
    let frozen = format!("{}/fixtures/ie_project", crate::util::root());
    let live = format!("{}/examples/indo-european", std::env::var("VERIF_REPO").unwrap_or_else(|_| "/repo".to_string()));
    for (label, root) in [("frozen copy", frozen.as_str()), ("live copy", live.as_str())] {
        for (pname, proj) in [("germanic", project_groups(root)), ("indo-iranian", project_groups_ii(root))] {
            let Some((groups, words, into)) = proj else { r.machinery_errors.push(format!("example project {} not readable at {}", pname, root)); continue };
            let jobs = words.len() * (groups.len() - 1);
            let mut t = Acc::default();
            par_fold(jobs, 8, Acc::default, |i, a| {
                let w = &words[i / (groups.len() - 1)]; let k = i % (groups.len() - 1) + 1;
                a.evals += 1;
                match staged_law(&groups, k, w, &into) {
                    Ok(None) => a.skipped += 1,
                    Ok(Some(nt)) => if nt { a.nt += 1 },
                    Err((class, d)) => a.viols.push(Viol { key: format!("{}|{}|{}|k={}|{}", class, pname, label, k, w), desc: format!("{} project ({}), word `{}`, split after group {} (`{}`): {}", pname, label, w, k, groups[k - 1].name, d), case: json!({"kind": "project", "project": pname, "root": root, "k": k, "word": w}) }),
                }
            }, |a| t.merge(a));
            r.boxes.push(json!({"box": format!("(C) {} example project, {}", pname, label), "rule_groups": groups.len(), "words": words.len(), "split_points_x_words": t.evals, "skipped": t.skipped, "changed_word": t.nt, "failures": t.viols.len()}));
            r.guard(t.evals > 500 && t.nt * 2 > t.evals, &format!("(C) {} {}: more than 500 comparisons, most non-trivial", pname, label));
            r.evaluations += t.evals; r.nontrivial += t.nt; r.skip("intermediate unrenderable / prefix errors", t.skipped);
            for v in t.viols { r.viol(v); }
        }
    }
    // (D) `asca seq`: the command line's own staging (each stage reads the previous stage's rendered words) against one library run
    if crate::cli::cli_available() {
        let (configs, procs, ok, viols) = super::c20::staged_pipelines_for_c10();
        r.boxes.push(json!({"box": "(D) `asca seq` pipelines of depth >= 2 (four-tag forests x 24 declaration orders, all tags in one invocation) vs one run of the tag's whole rule history", "configs": configs, "cli_processes": procs, "pipeline_tag_outputs_equal": ok, "failures": viols.len()}));
        r.guard(ok > 1000, "(D) more than 1000 pipeline outputs compared");
        r.evaluations += ok + viols.len() as u64;
        for v in viols { r.viol(v); }
    } else { r.machinery_errors.push(format!("{} not built", crate::cli::cli())); }
    r.transitions = r.evaluations * 3; r.validated = r.evaluations; r.states_count_override = Some(states_total);
    r.sample(json!({"kind": "staged", "rules": ["* > $ / V_C", "$C > & / _#"], "word": "ˈpa.taˌki"}));
    r.sample(json!({"kind": "regroup", "rules": [rules[3], rules[40]], "groupings": all_groupings(&[rules[3], rules[40]]).iter().map(|g| g.iter().map(|x| x.rule.len()).collect::<Vec<_>>()).collect::<Vec<_>>()}));
    r.finish()
}

pub fn replay(case: &Value) -> Result<String, String> {
    match case["kind"].as_str() {
        Some("staged") => {
            let rules: Vec<RuleGroup> = case["rules"].as_array().ok_or("rules")?.iter().map(|x| g1(x.as_str().unwrap_or(""))).collect();
            match staged_law(&rules, case["k"].as_u64().unwrap_or(1) as usize, case["word"].as_str().unwrap_or(""), &[]) { Ok(_) => Ok("staged == one-shot".into()), Err((c, d)) => Err(format!("{}: {}", c, d)) }
        }
        Some("regroup") => {
            let h: Vec<&str> = case["rules"].as_array().ok_or("rules")?.iter().map(|x| x.as_str().unwrap_or("")).collect();
            let w = case["word"].as_str().unwrap_or("");
            let gs = all_groupings(&h);
            let base = run1(&gs[0], w, &[]);
            for alt in &gs[1..] { let x = run1(alt, w, &[]); if format!("{:?}", x) != format!("{:?}", base) { return Err(format!("grouping {:?} gives {:?}, flat gives {:?}", alt.iter().map(|g| g.rule.len()).collect::<Vec<_>>(), x, base)); } }
            Ok("all groupings agree".into())
        }
        Some("project") => {
            let root = case["root"].as_str().unwrap_or("");
            let proj = if case["project"].as_str() == Some("germanic") { project_groups(root) } else { project_groups_ii(root) };
            let (groups, _, into) = proj.ok_or("project unreadable")?;
            match staged_law(&groups, case["k"].as_u64().unwrap_or(1) as usize, case["word"].as_str().unwrap_or(""), &into) { Ok(_) => Ok("staged == one-shot".into()), Err((c, d)) => Err(format!("{}: {}", c, d)) }
        }
        _ => Err("unknown case".into()),
    }
}
