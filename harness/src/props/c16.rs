//! C16 — the trace tells the same story as the run.
use crate::util::*;
use asca::verif as av;
use asca::RuleGroup;
use serde_json::{json, Value};

fn mk_groups(spec: &[Vec<&str>]) -> Vec<RuleGroup> {
    spec.iter().enumerate().map(|(i, rs)| RuleGroup { name: format!("G{} \"{}\"", i, rs.len()), rule: rs.iter().map(|s| s.to_string()).collect(), description: String::new() }).collect()
}

fn runres_probe(groups: &[RuleGroup], phrase: &str, b: u64) -> bool { matches!(guarded(b, || asca::run(groups, &[phrase.to_string()], &[], &[]).is_ok()), Out::Ok(_)) }

#[derive(Default)]
struct Acc { evals: u64, reported: u64, silent: u64, errs: u64, viols: Vec<Viol>, outs: std::collections::BTreeSet<u64> }
impl Acc { fn merge(&mut self, o: Acc) { self.evals += o.evals; self.reported += o.reported; self.silent += o.silent; self.errs += o.errs; self.viols.extend(o.viols); self.outs.extend(o.outs); } }

fn check(spec: &[Vec<&str>], phrase: &str, a: &mut Acc) {
    let groups = mk_groups(spec);
    let rl: usize = groups.iter().map(|g| g.rule.iter().map(|r| r.chars().count() + 1).sum::<usize>()).sum();
    let b = budget_for(phrase.chars().count() + 4, rl) * 3;
    let key = || format!("{}|{}", spec.iter().map(|g| g.join(" ; ")).collect::<Vec<_>>().join(" || "), phrase);
    let case = || json!({"groups": spec, "phrase": phrase});
    a.evals += 1;
    // reference: structural application group by group
    let reference = guarded(b, || -> Result<Vec<Vec<CW>>, String> {
        // every group is compiled on its own, so the reference does not share the library's group indexing
        let mut cs = vec![];
        for g in &groups { cs.push(av::compile(std::slice::from_ref(g)).map_err(|e| format!("{:?}", e))?); }
        let mut cur: Vec<_> = phrase.split(' ').map(|w| av::parse_word(w, None)).collect::<Result<Vec<_>, _>>().map_err(|e| format!("{:?}", e))?;
        let mut states = vec![cur.iter().map(cw_of).collect::<Vec<_>>()];
        for gi in 0..groups.len() {
            let mut next = vec![];
            for w in cur { next.push(av::apply_all(&cs[gi], w).map_err(|e| format!("{:?}", e))?); }
            cur = next;
            states.push(cur.iter().map(cw_of).collect());
        }
        Ok(states)
    });
    let reference = match reference { Out::Ok(x) => x, o => { if runres_probe(&groups, phrase, b) { a.viols.push(Viol { key: format!("reference-crash|{}", key()), desc: format!("the group-by-group reference crashed ({}) although run() returns", o.crash_desc().unwrap()), case: case() }); } return; } };
    let runres = match guarded(b, || asca::run(&groups, &[phrase.to_string()], &[], &[]).map_err(|e| format!("{:?}", e))) { Out::Ok(x) => x, _ => return };
    let trace = match guarded(b, || asca::trace_changes(&groups, phrase.to_string(), &[]).map(|v| v.into_iter().map(|c| (c.rule_index, c.after.iter().map(cw_of).collect::<Vec<CW>>())).collect::<Vec<_>>()).map_err(|e| format!("{:?}", e))) { Out::Ok(x) => x, _ => return };
    let tstr = match guarded(b, || asca::get_trace_string(&groups, phrase.to_string(), &[]).map_err(|e| format!("{:?}", e))) { Out::Ok(x) => x, _ => return };
    let fail = |a: &mut Acc, d: String| a.viols.push(Viol { key: key(), desc: d, case: case() });
    match (&reference, &runres, &trace, &tstr) {
        (Err(_), Err(_), Err(_), Err(_)) => { a.errs += 1; }
        (Ok(states), Ok(out), Ok(tr), Ok(ts)) => {
            // expected reports
            let mut want: Vec<(usize, Vec<CW>)> = vec![];
            for i in 0..groups.len() { if states[i + 1] != states[i] { want.push((i, states[i + 1].clone())); } }
            if !tr.windows(2).all(|p| p[0].0 < p[1].0) { return fail(a, format!("trace indices not strictly increasing: {:?}", tr.iter().map(|x| x.0).collect::<Vec<_>>())); }
            if tr.iter().map(|x| x.0).collect::<Vec<_>>() != want.iter().map(|x| x.0).collect::<Vec<_>>() {
                return fail(a, format!("trace reports groups {:?}; the groups that change the phrase are {:?}", tr.iter().map(|x| x.0).collect::<Vec<_>>(), want.iter().map(|x| x.0).collect::<Vec<_>>()));
            }
            for (t, w) in tr.iter().zip(&want) { if t.1 != w.1 { return fail(a, format!("state reported for group {} is `{}`, a plain run of groups 0..{} gives `{}`", t.0, t.1.iter().map(show_cw).collect::<Vec<_>>().join(" "), t.0, w.1.iter().map(show_cw).collect::<Vec<_>>().join(" "))); } }
            let last = states.last().unwrap();
            let rendered: Vec<String> = last.iter().map(|w| av::render_word(&word_of(w), None)).collect();
            // run() of words flagged americanist renders differently; compare through the structural words instead when that is the case
            if out.len() != 1 || (out[0] != rendered.join(" ") && !phrase.chars().any(|c| "¢ƛλłñ".contains(c))) { return fail(a, format!("run gives {:?}, the last traced state renders as `{}`", out, rendered.join(" "))); }
            // get_trace_string: "Applied \"name\":" then "<before> => <after>"
            if ts.len() != 2 * want.len() { return fail(a, format!("get_trace_string has {} lines for {} reported groups: {:?}", ts.len(), want.len(), ts)); }
            let mut prev: Vec<String> = states[0].iter().map(|w| av::render_word(&word_of(w), None)).collect();
            let amer = phrase.chars().any(|c| "¢ƛλłñ".contains(c));
            for (j, (gi, st)) in want.iter().enumerate() {
                let head = format!("Applied \"{}\":", groups[*gi].name);
                if ts[2 * j] != head { return fail(a, format!("trace line `{}` should be `{}`", ts[2 * j], head)); }
                let now: Vec<String> = st.iter().map(|w| av::render_word(&word_of(w), None)).collect();
                let parts: Vec<&str> = ts[2 * j + 1].splitn(2, "=>").collect();
                if !amer && (parts.len() != 2 || parts[0].trim() != prev.join(" ") || parts[1].trim() != now.join(" ")) { return fail(a, format!("trace line `{}` should read `{} => {}`", ts[2 * j + 1], prev.join(" "), now.join(" "))); }
                // the property's own wording, through the public API only: the state printed for group i is what a plain run of groups 0..=i prints
                // (this also covers phrases typed in Americanist notation, whose rendering the structural reference does not model)
                if parts.len() == 2 {
                    if let Out::Ok(Ok(pref)) = guarded(b, || asca::run(&groups[..=*gi], &[phrase.to_string()], &[], &[])) {
                        if pref.len() != 1 || parts[1].trim() != pref[0].trim() { return fail(a, format!("get_trace_string prints `{}` after group {}, a plain run of groups 0..={} prints {:?}", parts[1].trim(), gi, gi, pref)); }
                    }
                }
                prev = now;
            }
            if want.is_empty() { a.silent += 1; } else { a.reported += 1; }
            a.outs.insert(hash64(&(tr.iter().map(|x| x.0).collect::<Vec<_>>(), last.clone())));
        }
        _ => fail(a, format!("run / trace_changes / get_trace_string / reference disagree on success: reference {:?}, run {:?}, trace_changes {}, get_trace_string {}", reference.as_ref().map(|_| "Ok").map_err(|e| e.clone()), runres, if trace.is_ok() { "Ok" } else { "Err" }, if tstr.is_ok() { "Ok" } else { "Err" })),
    }
}

pub fn run() -> i32 {
    let mut r = Report::new("C16");
    let thorough = r.thorough();
    r.rule = "rule-group lists G0..Gn (n <= 2 quick, 3 thorough), every group one rule from a 24-rule pool (plus two-rule groups in a second box), phrases of one to three pool words (two of them with an empty word, i.e. two spaces in a row; three that spell the same word in Americanist and in IPA notation); trace_changes / get_trace_string / run compared with a reference that applies the groups one by one structurally: indices strictly increasing, exactly the changing groups reported, each reported state == plain application of groups 0..i, last state renders as run's output, Err iff run is Err, and the printed trace is the same sequence. Non-trivial = at least one group reported.".into();
    let pool: Vec<&str> = super::c11::RULE_POOL.iter().copied().step_by(2).chain(["{p,t} > {b}", "% > a", "a > *", "% > * / _%"]).collect();
    let phrases = ["pa", "ta.pi", "ˈpa.taˌki", "a", "paː sa.pa51", "t ta.pi", "pa pa", "ła.ta pa", "a ta.pi", "pa  ta.pi", "a  pa sa.pa51",
        // the same word in Americanist and in IPA spelling inside one phrase: equal words, different notation
        "ła ɬa", "ɬa.ta ła.ta", "¢a t͡sa ¢a"];
    let n = if thorough { 3 } else { 2 };
    let mut specs: Vec<Vec<Vec<&str>>> = vec![];
    for len in 1..=n { for idx in 0..pool.len().pow(len as u32) {
        let mut q = idx; let mut s = vec![];
        for _ in 0..len { s.push(vec![pool[q % pool.len()]]); q /= pool.len(); }
        specs.push(s);
    } }
    // groups of two rules, lists of two groups
    let small: Vec<&str> = pool.iter().copied().step_by(3).collect();
    for a in &small { for b in &small { for c in &small { specs.push(vec![vec![*a, *b], vec![*c]]); specs.push(vec![vec![*c], vec![*a, *b]]); } } }
    // groups whose rules undo each other: the group as a whole leaves the phrase as it was and is not to be reported, although its rules fired
    for (x, y) in [("a > e", "e > a"), ("p > b", "b > p"), ("a > [+nasal]", "a > [-nasal]"), ("% > [+stress] / #_", "% > [-stress]"), ("* > t / _#", "t > * / _#")] {
        for c in &small { specs.push(vec![vec![x, y], vec![*c]]); specs.push(vec![vec![*c], vec![x, y]]); specs.push(vec![vec![x, y, *c]]); specs.push(vec![vec![x], vec![y], vec![x, y]]); }
    }
    // empty groups and comment-only groups in between
    for a in &small { for b in &small { specs.push(vec![vec![*a], vec![], vec![*b]]); specs.push(vec![vec![";; nothing"], vec![*a], vec![*b]]); } }
    let mut t = Acc::default();
    par_fold(specs.len(), 16, Acc::default, |i, a| for p in phrases { check(&specs[i], p, a) }, |a| t.merge(a));
    // rules that edit a syllable at its front / in the middle, followed by rules that compare whole syllables or segments with variables:
    // the run hands the edited word itself on to the next group, the trace a copy of it — both must see the same word
    let pool2 = ["[-son, αvoice]=1 V=2 > 1 2:[αlong]", "[αvoice] [-αvoice] > [+nasal] [+nasal]", "* > t / a$_a", "* > t / $_a", "* > i / $_C", "%=1 > * / _1", "%=1 > * / 1_", "C=1 > * / _V 1", "a > o / _#", "%=1 1 > 1", "* > 1 / $_C=1", "$C > & / V_"];
    let phrases2 = ["ta.a", "ka ta.a.ki", "sa.a.ta ta.a", "a.a.a", "ta.ta.a pa.a",
        // a word that ends in the middle of a match of a two-element input, followed by a word that begins with another match
        "pat ba", "pat ba tad da", "bad pa"];
    let mut specs2: Vec<Vec<Vec<&str>>> = vec![];
    for a in pool2 { for b in pool2 { specs2.push(vec![vec![a], vec![b]]); for c in pool2 { specs2.push(vec![vec![a], vec![b], vec![c]]); } } }
    let mut t2 = Acc::default();
    par_fold(specs2.len(), 16, Acc::default, |i, a| for p in phrases2 { check(&specs2[i], p, a) }, |a| t2.merge(a));
    r.boxes.push(json!({"box": "front / mid-syllable edits followed by variable comparisons (10-rule pool, lists of 2 and 3 groups)", "group_lists": specs2.len(), "phrases": phrases2.len(), "comparisons": t2.evals, "reported": t2.reported}));
    r.guard(t2.reported > 500, "second pool: more than 500 traces report a change");
    t.merge(t2);
    r.evaluations = t.evals; r.transitions = t.evals * 4; r.validated = t.reported + t.silent + t.errs; r.nontrivial = t.reported; r.states = t.outs;
    r.outcome("traces_with_reports", t.reported); r.outcome("traces_without_reports", t.silent); r.outcome("all_entry_points_err", t.errs);
    r.boxes.push(json!({"box": "group lists x phrases", "group_lists": specs.len(), "phrases": phrases.len(), "comparisons": t.evals}));
    r.guard(t.reported > 1000 && t.silent > 100 && t.errs > 10, "reported, silent and failing traces all occur");
    r.sample(json!({"groups": [["a > e"], ["% > [tone:51]"]], "phrase": "paː sa.pa51"}));
    for v in t.viols { r.viol(v); }
    r.finish()
}

pub fn replay(case: &Value) -> Result<String, String> {
    let spec: Vec<Vec<String>> = case["groups"].as_array().ok_or("groups")?.iter().map(|g| g.as_array().map(|v| v.iter().map(|x| x.as_str().unwrap_or("").to_string()).collect()).unwrap_or_default()).collect();
    let spec_ref: Vec<Vec<&str>> = spec.iter().map(|g| g.iter().map(|s| s.as_str()).collect()).collect();
    let mut a = Acc::default();
    check(&spec_ref, case["phrase"].as_str().unwrap_or(""), &mut a);
    match a.viols.first() { Some(v) => Err(v.desc.clone()), None => Ok("trace agrees with run".into()) }
}
