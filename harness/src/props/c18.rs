//! C18 — get/set laws of the exported Segment and Place accessors.
//! Exhaustive over all 2^16 Some(x) places + None, 4 sub-nodes, every in-range value and
//! None; all 26 features x 2 polarities; all root/manner/laryngeal bytes. Plus an
//! explicit-state closure: every encoding reachable from None through the setters.
use crate::util::*;
use asca::{NodeKind, Place, Segment};
use serde_json::{json, Value};
use std::collections::{BTreeSet, VecDeque};

/// Reference model of the documented layout `1111_11_11_111111_11`
/// (presence Lab,Cor,Dor,Phr | lab 2 | cor 2 | dor 6 | phr 2).
#[derive(Clone, Copy, PartialEq, Eq, Debug)]
struct MPlace { sub: [Option<u8>; 4] }

const PRES: [u16; 4] = [0x8000, 0x4000, 0x2000, 0x1000];
const OFF: [u32; 4] = [10, 8, 2, 0];
const WIDTH: [u16; 4] = [0x3, 0x3, 0x3f, 0x3];
const NODES: [NodeKind; 4] = [NodeKind::Labial, NodeKind::Coronal, NodeKind::Dorsal, NodeKind::Pharyngeal];
const NODE_NAMES: [&str; 4] = ["labial", "coronal", "dorsal", "pharyngeal"];

fn decode(p: Option<u16>) -> MPlace {
    let mut sub = [None; 4];
    if let Some(x) = p {
        for n in 0..4 {
            if x & PRES[n] != 0 { sub[n] = Some(((x >> OFF[n]) & WIDTH[n]) as u8); }
        }
    }
    MPlace { sub }
}
fn stray_bits(p: Option<u16>) -> bool {
    match p {
        None => false,
        Some(x) => (0..4).any(|n| x & PRES[n] == 0 && (x >> OFF[n]) & WIDTH[n] != 0),
    }
}
fn mk_place(p: Option<u16>) -> Place {
    let mut pl = Place::default();
    *pl = p;
    pl
}
fn get_sub(pl: &Place, n: usize) -> Option<u8> {
    match n { 0 => pl.get_labial(), 1 => pl.get_coronal(), 2 => pl.get_dorsal(), _ => pl.get_pharyngeal() }
}
fn set_sub(pl: &mut Place, n: usize, v: Option<u8>) {
    match n { 0 => pl.set_labial(v), 1 => pl.set_coronal(v), 2 => pl.set_dorsal(v), _ => pl.set_pharyngeal(v) }
}
fn is_some_sub(pl: &Place, n: usize) -> (bool, bool) {
    match n {
        0 => (pl.labial_is_some(), pl.labial_is_none()),
        1 => (pl.coronal_is_some(), pl.coronal_is_none()),
        2 => (pl.dorsal_is_some(), pl.dorsal_is_none()),
        _ => (pl.pharyngeal_is_some(), pl.pharyngeal_is_none()),
    }
}

/// the 26 features: (name, node index: 0 root 1 manner 2 laryngeal 3.. place subnodes, mask)
pub const FEATS: [(&str, usize, u8); 26] = [
    ("consonantal", 0, 0b100), ("sonorant", 0, 0b010), ("syllabic", 0, 0b001),
    ("continuant", 1, 0x80), ("approximant", 1, 0x40), ("lateral", 1, 0x20), ("nasal", 1, 0x10),
    ("delayedrelease", 1, 0x08), ("strident", 1, 0x04), ("rhotic", 1, 0x02), ("click", 1, 0x01),
    ("voice", 2, 0b100), ("spreadglottis", 2, 0b010), ("constrictedglottis", 2, 0b001),
    ("labiodental", 3, 0b10), ("round", 3, 0b01),
    ("anterior", 4, 0b10), ("distributed", 4, 0b01),
    ("front", 5, 0b100000), ("back", 5, 0b010000), ("high", 5, 0b001000), ("low", 5, 0b000100), ("tense", 5, 0b000010), ("reduced", 5, 0b000001),
    ("atr", 6, 0b10), ("rtr", 6, 0b01),
];
pub fn node_kind(i: usize) -> NodeKind {
    match i { 0 => NodeKind::Root, 1 => NodeKind::Manner, 2 => NodeKind::Laryngeal, 3 => NodeKind::Labial, 4 => NodeKind::Coronal, 5 => NodeKind::Dorsal, _ => NodeKind::Pharyngeal }
}

fn check_place_set(x: Option<u16>, n: usize, v: Option<u8>) -> Result<(), (String, String)> {
    let before = decode(x);
    let mut pl = mk_place(x);
    set_sub(&mut pl, n, v);
    // 1. get-after-set
    if get_sub(&pl, n) != v {
        return Err((format!("place|get-after-set|{}", NODE_NAMES[n]), format!("set_{}({:?}) on {:?} then get = {:?}", NODE_NAMES[n], v, x, get_sub(&pl, n))));
    }
    // 2. frame
    for m in 0..4 {
        if m != n && get_sub(&pl, m) != before.sub[m] {
            return Err((format!("place|frame|set_{}|reads_{}", NODE_NAMES[n], NODE_NAMES[m]), format!("set_{}({:?}) on {:?} changed {} from {:?} to {:?}", NODE_NAMES[n], v, x, NODE_NAMES[m], before.sub[m], get_sub(&pl, m))));
        }
    }
    // 3. is_some / is_none consistent with get, through Place and through Segment
    let mut s = Segment::default();
    s.place = pl;
    for m in 0..4 {
        let g = get_sub(&pl, m);
        let (some, none) = is_some_sub(&pl, m);
        if some != g.is_some() || none != g.is_none() || s.get_node(NODES[m]) != g || s.is_node_some(NODES[m]) != g.is_some() || s.is_node_none(NODES[m]) != g.is_none()
            || !s.node_match(NODES[m], g) || s.node_match(NODES[m], g.map(|b| b ^ 1).or(Some(0))) {
            return Err((format!("place|consistency|{}", NODE_NAMES[m]), format!("is_some/get_node/node_match disagree with get for {} on {:?}", NODE_NAMES[m], *pl)));
        }
    }
    if pl.is_some() != (*pl).is_some() || pl.is_none() != (*pl).is_none() || s.is_place_some() != pl.is_some() || s.is_place_none() != pl.is_none() {
        return Err(("place|consistency|place".into(), format!("is_some disagrees on {:?}", *pl)));
    }
    // 4. well-formedness is preserved: on well-formed input the result is well-formed
    let wf_in = !stray_bits(x) && x != Some(0) && x.map(|b| b & 0xF000 != 0).unwrap_or(true);
    if wf_in {
        if stray_bits(*pl) {
            return Err((format!("place|residual-bits|set_{}", NODE_NAMES[n]), format!("set_{}({:?}) on {:?} leaves {:?}: payload bits under an absent sub-node", NODE_NAMES[n], v, x, *pl)));
        }
        let all_absent = decode(*pl).sub.iter().all(|s| s.is_none());
        if all_absent && pl.is_some() {
            return Err((format!("place|empty-not-absent|set_{}", NODE_NAMES[n]), format!("set_{}({:?}) on {:?} leaves {:?}: no sub-node but place is Some", NODE_NAMES[n], v, x, *pl)));
        }
    }
    Ok(())
}

fn mk_seg(root: u8, manner: u8, lar: u8, place: Option<u16>) -> Segment {
    seg_of((root, manner, lar, place))
}
fn node_val(b: SegBits, ni: usize) -> Option<u8> {
    match ni { 0 => Some(b.0), 1 => Some(b.1), 2 => Some(b.2), k => decode(b.3).sub[k - 3] }
}

/// set_feat / get_feat / feat_match on one segment, one feature, one polarity
fn check_feat(b: SegBits, fi: usize, pos: bool) -> Result<(), (String, String)> {
    let (name, ni, mask) = FEATS[fi];
    check_mask(b, name, ni, mask, pos)
}

/// the same laws for an arbitrary bitmask of features of one node (`feat` is documented as "a bitmask of the feature values to set")
fn check_mask(b: SegBits, name: &str, ni: usize, mask: u8, pos: bool) -> Result<(), (String, String)> {
    let nk = node_kind(ni);
    let s0 = seg_of(b);
    let before = node_val(b, ni);
    // match laws on the unchanged segment
    let exp_match_pos = before.map(|v| v & mask == mask).unwrap_or(false);
    let exp_match_neg = before.map(|v| v & mask == 0).unwrap_or(false);
    if s0.feat_match(nk, mask, true) != exp_match_pos || s0.feat_match(nk, mask, false) != exp_match_neg || s0.get_feat(nk, mask) != before.map(|v| v & mask) {
        return Err((format!("seg|feat_match|{}", name), format!("feat_match/get_feat of {} on {:?} disagree with the layout", name, b)));
    }
    let mut s = s0;
    s.set_feat(nk, mask, pos);
    let after = bits(&s);
    // expected by the model
    let exp_node = match (before, pos) {
        (Some(v), true) => Some(v | mask),
        (Some(v), false) => Some(v & !mask),
        (None, true) => Some(mask),
        (None, false) => None,
    };
    if node_val(after, ni) != exp_node {
        return Err((format!("seg|set_feat|{}|{}", name, if pos { "+" } else { "-" }), format!("set_feat({}, {}) on {:?}: node reads {:?}, model {:?}", name, pos, b, node_val(after, ni), exp_node)));
    }
    // get-after-set through the accessors
    if pos && !s.feat_match(nk, mask, true) {
        return Err((format!("seg|get-after-set|{}|+", name), format!("set_feat({}, +) on {:?} then feat_match(+) is false", name, b)));
    }
    if !pos && s.feat_match(nk, mask, true) {
        return Err((format!("seg|get-after-set|{}|-", name), format!("set_feat({}, -) on {:?} then feat_match(+) is true", name, b)));
    }
    // frame: every other node reads as before
    for m in 0..7 {
        if m != ni && node_val(after, m) != node_val(b, m) {
            return Err((format!("seg|frame|set_feat {}|node{}", name, m), format!("set_feat({}, {}) on {:?} changed node {} from {:?} to {:?}", name, pos, b, m, node_val(b, m), node_val(after, m))));
        }
    }
    Ok(())
}

pub fn run() -> i32 {
    let mut r = Report::new("C18");
    r.rule = "every Some(x) place, x in 0..=65535, and None x 4 sub-nodes x every in-range value and None (set/get/frame/consistency/well-formedness); every place x 12 place features x 2 polarities and every byte x 14 root/manner/laryngeal features x 2 (set_feat/get_feat/feat_match/frame); every byte through set_node/get_node of root, manner, laryngeal; set_feat/get_feat/feat_match with every mask of two or more defined feature bits of every node on every stored value of that node; BFS closure of encodings reachable from None through the four setters. Non-trivial = the call changed the encoding.".into();
    r.assumptions.push("sub-node values are in range (the setters debug_assert that)".into());
    // ---- box 1: place setters
    let vals: Vec<Vec<Option<u8>>> = (0..4).map(|n| { let mut v: Vec<Option<u8>> = vec![None]; v.extend((0..=WIDTH[n] as u8).map(Some)); v }).collect();
    let n_places = 65537usize;
    struct Acc { evals: u64, changed: u64, states: BTreeSet<u64>, viols: Vec<Viol> }
    let mut total = Acc { evals: 0, changed: 0, states: BTreeSet::new(), viols: vec![] };
    par_fold(n_places, 512, || Acc { evals: 0, changed: 0, states: BTreeSet::new(), viols: vec![] }, |i, a| {
        let x = if i == 65536 { None } else { Some(i as u16) };
        for n in 0..4 {
            for v in &vals[n] {
                a.evals += 1;
                let res = guarded(1_000_000, || check_place_set(x, n, *v));
                match res {
                    Out::Ok(Ok(())) => {
                        let mut pl = mk_place(x);
                        set_sub(&mut pl, n, *v);
                        if *pl != x { a.changed += 1; }
                        a.states.insert(pl.map(|b| b as u64).unwrap_or(1 << 20));
                    }
                    Out::Ok(Err((key, desc))) => a.viols.push(Viol { key, desc, case: json!({"kind": "place_set", "x": x, "node": n, "v": v}) }),
                    other => a.viols.push(Viol { key: format!("place|crash|set_{}|{}", NODE_NAMES[n], other.crash_sig().unwrap()), desc: other.crash_desc().unwrap(), case: json!({"kind": "place_set", "x": x, "node": n, "v": v}) }),
                }
            }
        }
    }, |a| { total.evals += a.evals; total.changed += a.changed; total.states.extend(a.states); total.viols.extend(a.viols); });
    r.boxes.push(json!({"box": "place setters", "places": n_places, "calls": total.evals, "calls_changing_encoding": total.changed, "distinct_results": total.states.len()}));
    // ---- box 2: features on place
    let mut t2 = Acc { evals: 0, changed: 0, states: BTreeSet::new(), viols: vec![] };
    par_fold(n_places, 512, || Acc { evals: 0, changed: 0, states: BTreeSet::new(), viols: vec![] }, |i, a| {
        let x = if i == 65536 { None } else { Some(i as u16) };
        let b = (0b101u8, 0x80u8, 0b100u8, x);
        for fi in 14..26 {
            for pos in [true, false] {
                a.evals += 1;
                match guarded(1_000_000, || check_feat(b, fi, pos)) {
                    Out::Ok(Ok(())) => { let mut s = seg_of(b); s.set_feat(node_kind(FEATS[fi].1), FEATS[fi].2, pos); if bits(&s) != b { a.changed += 1; } }
                    Out::Ok(Err((key, desc))) => a.viols.push(Viol { key, desc, case: json!({"kind": "feat", "seg": [b.0, b.1, b.2, b.3], "feat": fi, "pos": pos}) }),
                    other => a.viols.push(Viol { key: format!("seg|crash|{}", other.crash_sig().unwrap()), desc: other.crash_desc().unwrap(), case: json!({"kind": "feat", "seg": [b.0, b.1, b.2, b.3], "feat": fi, "pos": pos}) }),
                }
            }
        }
    }, |a| { t2.evals += a.evals; t2.changed += a.changed; t2.viols.extend(a.viols); });
    r.boxes.push(json!({"box": "place features", "calls": t2.evals, "calls_changing_segment": t2.changed}));
    // ---- box 3: byte nodes
    let mut t3 = Acc { evals: 0, changed: 0, states: BTreeSet::new(), viols: vec![] };
    for byte in 0..=255u8 {
        for ni in 0..3 {
            // set_node / get_node
            let mut s = mk_seg(0x12, 0x34, 0x56, Some(0xA400));
            let b0 = bits(&s);
            s.set_node(node_kind(ni), Some(byte));
            t3.evals += 1;
            let b1 = bits(&s);
            let ok = s.get_node(node_kind(ni)) == Some(byte) && s.node_match(node_kind(ni), Some(byte)) && !s.node_match(node_kind(ni), None) && s.is_node_some(node_kind(ni))
                && (0..7).all(|m| m == ni || node_val(b1, m) == node_val(b0, m));
            if !ok {
                t3.viols.push(Viol { key: format!("seg|set_node|node{}", ni), desc: format!("set_node({},{}) get/frame law broken: {:?}", ni, byte, b1), case: json!({"kind": "set_node", "node": ni, "byte": byte}) });
            }
            if b1 != b0 { t3.changed += 1; }
            // features of that node on every byte value
            let b = match ni { 0 => (byte, 0x34, 0x56, Some(0xA400)), 1 => (0x12, byte, 0x56, Some(0xA400)), _ => (0x12, 0x34, byte, Some(0xA400)) };
            for fi in 0..14 {
                if FEATS[fi].1 != ni { continue; }
                for pos in [true, false] {
                    t3.evals += 1;
                    match guarded(1_000_000, || check_feat(b, fi, pos)) {
                        Out::Ok(Ok(())) => { let mut s = seg_of(b); s.set_feat(node_kind(ni), FEATS[fi].2, pos); if bits(&s) != b { t3.changed += 1; } }
                        Out::Ok(Err((key, desc))) => t3.viols.push(Viol { key, desc, case: json!({"kind": "feat", "seg": [b.0, b.1, b.2, b.3], "feat": fi, "pos": pos}) }),
                        other => t3.viols.push(Viol { key: format!("seg|crash|{}", other.crash_sig().unwrap()), desc: other.crash_desc().unwrap(), case: json!({"kind": "feat", "seg": [b.0, b.1, b.2, b.3], "feat": fi, "pos": pos}) }),
                    }
                }
            }
        }
    }
    r.boxes.push(json!({"box": "root/manner/laryngeal bytes", "calls": t3.evals, "calls_changing_segment": t3.changed}));
    // ---- box 5: multi-bit masks: every node, every stored value of that node, every non-empty mask over the node's defined feature bits, both polarities
    let mut t5 = Acc { evals: 0, changed: 0, states: BTreeSet::new(), viols: vec![] };
    for ni in 0..7 {
        let width: u8 = FEATS.iter().filter(|f| f.1 == ni).fold(0u8, |m, f| m | f.2);
        let values: Vec<Option<u8>> = (0..=255u8).filter(|v| v & !width == 0).map(Some).chain(if ni >= 3 { vec![None] } else { vec![] }).collect();
        for v in &values {
            // the other place sub-nodes present with payload, so that frame violations are visible
            let base = (0b101u8, 0x80u8, 0b100u8, Some(0xF000u16 | 0x0AAA));
            let mut s = seg_of(base);
            if ni < 3 { s.set_node(node_kind(ni), *v); } else { s.set_node(node_kind(ni), *v); }
            let b = bits(&s);
            for mask in 1..=255u8 {
                if mask & !width != 0 || mask.count_ones() < 2 { continue; }
                for pos in [true, false] {
                    t5.evals += 1;
                    let name = format!("node{}-mask{:#b}", ni, mask);
                    match guarded(1_000_000, || check_mask(b, &name, ni, mask, pos)) {
                        Out::Ok(Ok(())) => { let mut s = seg_of(b); s.set_feat(node_kind(ni), mask, pos); if bits(&s) != b { t5.changed += 1; } }
                        Out::Ok(Err((key, desc))) => t5.viols.push(Viol { key, desc, case: json!({"kind": "mask", "seg": [b.0, b.1, b.2, b.3], "node": ni, "mask": mask, "pos": pos}) }),
                        other => t5.viols.push(Viol { key: format!("seg|crash|{}", other.crash_sig().unwrap()), desc: other.crash_desc().unwrap(), case: json!({"kind": "mask", "seg": [b.0, b.1, b.2, b.3], "node": ni, "mask": mask, "pos": pos}) }),
                    }
                }
            }
        }
    }
    r.boxes.push(json!({"box": "multi-bit feature masks (all nodes x all stored values x all masks of >= 2 defined bits x 2 polarities)", "calls": t5.evals, "calls_changing_segment": t5.changed}));
    r.guard(t5.changed > 1000, "multi-bit masks: more than 1000 calls change the segment");
    // ---- box 4: reachability closure from None through the setters (explicit-state BFS)
    let mut seen: BTreeSet<Option<u16>> = BTreeSet::new();
    let mut q = VecDeque::new();
    seen.insert(None); q.push_back(None);
    let mut trans = 0u64;
    let mut bad = 0u64;
    while let Some(x) = q.pop_front() {
        if x == Some(0) || stray_bits(x) || x.map(|b| b & 0xF000 == 0).unwrap_or(false) {
            bad += 1;
            r.viol(Viol { key: "place|reachable-ill-formed".into(), desc: format!("encoding {:?} is reachable from None through the setters", x), case: json!({"kind": "reach", "x": x}) });
        }
        for n in 0..4 {
            for v in &vals[n] {
                let mut pl = mk_place(x);
                set_sub(&mut pl, n, *v);
                trans += 1;
                if seen.insert(*pl) { q.push_back(*pl); }
            }
        }
    }
    r.boxes.push(json!({"box": "closure from None", "reachable_encodings": seen.len(), "transitions": trans, "ill_formed": bad}));
    r.guard(seen.len() > 1000, "closure reached > 1000 encodings");
    r.guard(total.changed > 100_000 && t2.changed > 100_000, "setters changed the encoding in > 100k calls");
    r.evaluations = total.evals + t2.evals + t3.evals + t5.evals;
    r.transitions = total.evals + t2.evals + t3.evals + t5.evals + trans;
    r.validated = r.evaluations;
    r.nontrivial = total.changed + t2.changed + t3.changed;
    r.states_count_override = Some(total.states.len() as u64 + seen.len() as u64);
    for v in total.viols.into_iter().chain(t2.viols).chain(t3.viols).chain(t5.viols) { r.viol(v); }
    r.sample(json!({"call": "set_dorsal(Some(0b001000)) on None", "result": format!("{:?}", { let mut p = mk_place(None); p.set_dorsal(Some(8)); *p })}));
    r.sample(json!({"call": "set_labial(None) on Some(0x8400)", "result": format!("{:?}", { let mut p = mk_place(Some(0x8400)); p.set_labial(None); *p })}));
    r.sample(json!({"call": "set_feat(Dorsal, high, +) on place None", "result": format!("{:?}", { let mut s = mk_seg(5, 0, 4, None); s.set_feat(NodeKind::Dorsal, 8, true); *s.place })}));
    r.finish()
}

pub fn replay(case: &Value) -> Result<String, String> {
    match case["kind"].as_str() {
        Some("place_set") => {
            let x = case["x"].as_u64().map(|v| v as u16);
            let n = case["node"].as_u64().unwrap_or(0) as usize;
            let v = case["v"].as_u64().map(|v| v as u8);
            match guarded(1_000_000, || check_place_set(x, n, v)) {
                Out::Ok(Ok(())) => Ok(format!("set_{}({:?}) on {:?}: all laws hold", NODE_NAMES[n], v, x)),
                Out::Ok(Err((k, d))) => Err(format!("{} :: {}", k, d)),
                o => Err(o.crash_desc().unwrap()),
            }
        }
        Some("feat") => {
            let a = case["seg"].as_array().ok_or("bad case")?;
            let b = (a[0].as_u64().unwrap() as u8, a[1].as_u64().unwrap() as u8, a[2].as_u64().unwrap() as u8, a[3].as_u64().map(|v| v as u16));
            let fi = case["feat"].as_u64().unwrap() as usize;
            let pos = case["pos"].as_bool().unwrap();
            match guarded(1_000_000, || check_feat(b, fi, pos)) {
                Out::Ok(Ok(())) => Ok("feature laws hold".into()),
                Out::Ok(Err((k, d))) => Err(format!("{} :: {}", k, d)),
                o => Err(o.crash_desc().unwrap()),
            }
        }
        Some("mask") => {
            let a = case["seg"].as_array().ok_or("bad case")?;
            let b = (a[0].as_u64().unwrap() as u8, a[1].as_u64().unwrap() as u8, a[2].as_u64().unwrap() as u8, a[3].as_u64().map(|v| v as u16));
            match guarded(1_000_000, || check_mask(b, "mask", case["node"].as_u64().unwrap() as usize, case["mask"].as_u64().unwrap() as u8, case["pos"].as_bool().unwrap())) {
                Out::Ok(Ok(())) => Ok("feature laws hold".into()),
                Out::Ok(Err((k, d))) => Err(format!("{} :: {}", k, d)),
                o => Err(o.crash_desc().unwrap()),
            }
        }
        _ => Err("replay of this case kind re-runs the whole (2 s) check: ./check C18".into()),
    }
}
