//! C03 — a basic sound change rewrites exactly the positions its environment selects.
use crate::refint::*;
use crate::util::*;
use asca::verif as av;
use serde_json::{json, Value};

fn seg_items() -> Vec<It> {
    vec![ipa("p"), ipa("t"), ipa("a"), ipa("i"),
         It::Mat("[+cons]", vec![(F_CONS, true)]), grp_c(), grp_v(), It::Mat("[+hi]", vec![(F_HIGH, true)]),
         It::Set(vec![ipa("p"), ipa("a")]),
         // a negative place feature: /p/ and /t/ have no dorsal node, so `[-hi]` selects /a/ only (an absent sub-node matches neither value)
         It::Mat("[-hi]", vec![(F_HIGH, false)])]
}
fn out_items() -> Vec<OutIt> {
    vec![OutIt::Ipa("t", seg("t")), OutIt::Ipa("i", seg("i")), OutIt::Mat("[+voice]", vec![(F_VOICE, true)]), OutIt::Mat("[-hi]", vec![(F_HIGH, false)])]
}
fn io_pairs(reduced: bool) -> Vec<(It, OutIt)> {
    let ins = seg_items();
    let outs = out_items();
    let mut v = vec![];
    if reduced {
        // {a, C, [+hi], {p,a}} x {i, [+voice]} (DESIGN T1..T4)
        for i in [2usize, 5, 7, 8] { for o in [1usize, 2] { v.push((ins[i].clone(), outs[o].clone())); } }
    } else {
        for i in &ins { for o in &outs { v.push((i.clone(), o.clone())); } }
        // input sets whose alternatives are groups / matrices (input only; as environment items `{p,a}` stands for sets)
        for i in [It::Set(vec![grp_c(), ipa("a")]), It::Set(vec![It::Mat("[+hi]", vec![(F_HIGH, true)]), ipa("p")]), It::Set(vec![grp_v()])] { for o in &outs { v.push((i.clone(), o.clone())); } }
    }
    v.push((ins[8].clone(), OutIt::Set(vec![OutIt::Ipa("t", seg("t")), OutIt::Ipa("i", seg("i"))])));
    v
}
/// all item sequences for one side of `_`, up to c items, `#` outermost only,
/// `$$`, `#$`, `$#` left out (the manual does not define them)
fn sides(c: usize, before: bool) -> Vec<Vec<It>> {
    let mut items = seg_items();
    items.push(It::SyllB);
    let mut out: Vec<Vec<It>> = vec![vec![]];
    for a in &items { out.push(vec![a.clone()]); }
    out.push(vec![It::WordB]);
    if c >= 2 {
        for a in &items { for b in &items {
            if *a == It::SyllB && *b == It::SyllB { continue; }
            out.push(vec![a.clone(), b.clone()]);
        } }
        for a in &items {
            if *a == It::SyllB { continue; }
            if before { out.push(vec![It::WordB, a.clone()]); } else { out.push(vec![a.clone(), It::WordB]); }
        }
    }
    out
}
/// sets that contain `#` / `$` next to segment alternatives, only as the outermost item of a side (there the
/// order in which alternatives are tried cannot matter): alone, and after one inner item
fn boundary_set_rules(ins: &[It], outs: &[OutIt]) -> Vec<BasicRule> {
    let p = || ipa("p"); let t = || ipa("t"); let a = || ipa("a");
    let sets = vec![
        It::Set(vec![p(), It::WordB]), It::Set(vec![It::WordB, t()]), It::Set(vec![It::SyllB, p()]), It::Set(vec![a(), It::SyllB]),
        It::Set(vec![It::WordB, It::SyllB]), It::Set(vec![p(), a(), It::WordB]), It::Set(vec![grp_c(), It::WordB]), It::Set(vec![It::SyllB, grp_v()]),
    ];
    let inner: Vec<Option<It>> = vec![None, Some(p()), Some(a()), Some(grp_c()), Some(It::SyllB)];
    let mut envs: Vec<Env> = vec![];
    let mut befores: Vec<Vec<It>> = vec![]; let mut afters: Vec<Vec<It>> = vec![];
    for s in &sets { for i in &inner {
        // `$` next to a set that itself may match `$` or `#` is left out (`$$`, `#$` are not defined)
        if matches!(i, Some(It::SyllB)) && matches!(s, It::Set(v) if v.iter().any(|m| matches!(m, It::SyllB | It::WordB))) { continue; }
        let mut b = vec![s.clone()]; if let Some(x) = i { b.push(x.clone()); }
        let mut af = vec![]; if let Some(x) = i { af.push(x.clone()); } af.push(s.clone());
        befores.push(b); afters.push(af);
        // ... and the set as the item NEXT TO the target with something behind it: an alternative that is there, but behind which the rest of the
        // side does not follow, must not keep a later alternative from being tried (`_ {$, t} a` on /o.ta/)
        if let Some(x) = i { befores.push(vec![x.clone(), s.clone()]); afters.push(vec![s.clone(), x.clone()]); }
    } }
    for b in &befores { envs.push((b.clone(), vec![])); }
    for af in &afters { envs.push((vec![], af.clone())); }
    for b in befores.iter().take(8) { for af in afters.iter().take(8) { envs.push((b.clone(), af.clone())); } }
    let mut v = vec![];
    for (i, o) in [(ins[2].clone(), outs[1].clone()), (ins[5].clone(), outs[2].clone())] { for e in &envs {
        v.push(BasicRule { input: i.clone(), output: o.clone(), context: vec![e.clone()], except: vec![] });
        v.push(BasicRule { input: i.clone(), output: o.clone(), context: vec![], except: vec![e.clone()] });
    } }
    // inside an environment set as well
    for e in envs.iter().take(16) { v.push(BasicRule { input: ins[2].clone(), output: outs[1].clone(), context: vec![e.clone(), (vec![ipa("t")], vec![])], except: vec![] }); }
    v
}

fn envs(c: usize) -> Vec<Env> {
    let mut v = vec![];
    for b in sides(c, true) { for a in sides(c, false) { if !(b.is_empty() && a.is_empty()) { v.push((b.clone(), a.clone())); } } }
    v
}

pub fn inventory(n: usize) -> Vec<SegBits> {
    ["p", "t", "a", "i", "n", "s"][..n].iter().map(|t| seg(t)).collect()
}

struct Acc { evals: u64, fired: u64, notfired: u64, skipped: u64, long: u64, viols: Vec<Viol>, outs: std::collections::BTreeSet<u64>, maxticks: u64 }
fn acc() -> Acc { Acc { evals: 0, fired: 0, notfired: 0, skipped: 0, long: 0, viols: vec![], outs: Default::default(), maxticks: 0 } }

fn eval_rule(rule: &BasicRule, words: &[CW], a: &mut Acc) {
    let text = rule.text();
    let compiled = match guarded(5_000_000, || av::compile(&[group(&[&text])])) {
        Out::Ok(Ok(c)) => c,
        Out::Ok(Err(e)) => { a.viols.push(Viol { key: format!("compile|{}", text), desc: format!("basic-fragment rule `{}` rejected: {:?}", text, e), case: json!({"rule": text}) }); return; }
        o => { a.viols.push(Viol { key: format!("compile-crash|{}", text), desc: o.crash_desc().unwrap(), case: json!({"rule": text}) }); return; }
    };
    for w in words {
        let long = has_adjacent_equal(w);
        let want = match if long { apply_basic_runs(rule, w) } else { apply_basic(rule, w) } { RefOut::SkipAdjacentEqual => { a.skipped += 1; continue; } RefOut::Word(c, f) => { if long { a.long += 1; } (c, f) } };
        a.evals += 1;
        let budget = budget_for(12, text.chars().count());
        let got = guarded(budget, || { let r = av::apply_group(&compiled, 0, word_of(w)).map(|x| cw_of(&x)); (r, av::ticks()) });
        match got {
            Out::Ok((Ok(g), ticks)) => {
                a.maxticks = a.maxticks.max(ticks * 1000 / budget);
                if g == want.0 {
                    if want.1 > 0 { a.fired += 1; } else { a.notfired += 1; }
                    a.outs.insert(hash64(&g));
                } else {
                    a.viols.push(Viol { key: format!("{}|{}", text, show_cw(w)), desc: format!("`{}` on /{}/: reference interpreter gives /{}/, asca gives /{}/", text, show_cw(w), show_cw(&want.0), show_cw(&g)), case: json!({"rule": text, "word": cw_json(w), "expected": cw_json(&want.0)}) });
                }
            }
            Out::Ok((Err(e), _)) => a.viols.push(Viol { key: format!("{}|{}", text, show_cw(w)), desc: format!("`{}` on /{}/: reference gives /{}/, asca returns error {:?}", text, show_cw(w), show_cw(&want.0), e), case: json!({"rule": text, "word": cw_json(w), "expected": cw_json(&want.0)}) }),
            o => a.viols.push(Viol { key: format!("crash|{}|{}", o.crash_sig().unwrap(), text), desc: format!("`{}` on /{}/: {}", text, show_cw(w), o.crash_desc().unwrap()), case: json!({"rule": text, "word": cw_json(w), "expected": cw_json(&want.0)}) }),
        }
    }
}

fn run_box(r: &mut Report, name: &str, rules: Vec<BasicRule>, words: &[CW]) {
    let mut tot = acc();
    let t0 = std::time::Instant::now();
    par_fold(rules.len(), 16, acc, |i, a| eval_rule(&rules[i], words, a), |a| {
        tot.evals += a.evals; tot.fired += a.fired; tot.notfired += a.notfired; tot.skipped += a.skipped; tot.long += a.long; tot.viols.extend(a.viols); tot.outs.extend(a.outs); tot.maxticks = tot.maxticks.max(a.maxticks);
    });
    r.boxes.push(json!({"box": name, "rules": rules.len(), "words": words.len(), "evaluated": tot.evals, "skipped_ambiguous": tot.skipped, "evaluated_with_long_segments": tot.long, "fired": tot.fired, "not_fired": tot.notfired, "distinct_outputs": tot.outs.len(), "max_ticks_permille_of_budget": tot.maxticks, "wall_s": t0.elapsed().as_secs_f64()}));
    r.evaluations += tot.evals; r.transitions += tot.evals; r.validated += tot.evals; r.nontrivial += tot.fired;
    r.skip("adjacent equal segments inside a syllable (input or intermediate)", tot.skipped);
    r.states.extend(tot.outs);
    r.guard(tot.fired > 0 && tot.notfired > 0, &format!("box {}: some rule fired and some did not", name));
    if rules.len() > 2 { r.sample(json!({"box": name, "rule": rules[rules.len() / 2].text(), "word": show_cw(&words[words.len() / 2])})); }
    for v in tot.viols { r.viol(v); }
}

pub fn run() -> i32 {
    let mut r = Report::new("C03");
    r.rule = "rules IN > OUT [/ ENV] [| ENV] over IN in {p,t,a,i,[+cons],C,V,[+hi],{p,a},[-hi]} and the input-only sets {C,a}, {[+hi],p}, {V}, OUT in {t,i,[+voice],[-hi],{t,i}}, ENV = before x after item sequences over the 10 segment items and $, # outermost; every rule x every word of the word space in every syllabification; real parser + Rule::apply vs reference interpreter, structural comparison. Non-trivial = the reference interpreter rewrites at least one position.".into();
    r.assumptions.push("reference interpreter harness/src/refint.rs written from doc.md; `$` = any syllable edge incl. word edges, `#` = word edge, both zero-width".into());
    r.assumptions.push("rules with a context or exception: cases in which a rewrite makes two neighbours of a syllable equal are skipped (what an environment item sees of the merged run is not documented); environment-free rules are judged on every word".into());
    let w44 = word_space(&inventory(4), 4);
    if !r.thorough() {
        let e1 = envs(1);
        let mut rules = vec![];
        for (i, o) in io_pairs(false) {
            rules.push(BasicRule { input: i.clone(), output: o.clone(), context: vec![], except: vec![] });
            for e in &e1 {
                rules.push(BasicRule { input: i.clone(), output: o.clone(), context: vec![e.clone()], except: vec![] });
                rules.push(BasicRule { input: i.clone(), output: o.clone(), context: vec![], except: vec![e.clone()] });
            }
        }
        run_box(&mut r, "Q: c=1, context-only and exception-only, W(I4,4)", rules, &w44);
        // Q7: sets whose alternatives overlap (`{a, V}`, `{t, C}`) with a further item behind them, on words with long segments: the plain letter
        // takes up one copy of a long segment, the group the whole of it, so which alternative is tried first must not matter
        {
            let sets = [It::Set(vec![ipa("a"), grp_v()]), It::Set(vec![grp_v(), ipa("a")]), It::Set(vec![ipa("t"), grp_c()]), It::Set(vec![grp_c(), ipa("t")])];
            let others = [ipa("t"), ipa("a"), grp_c(), grp_v(), It::SyllB, It::WordB];
            let mut q7 = vec![];
            for st in &sets { for ot in &others {
                for (i, o) in [(ipa("i"), OutIt::Ipa("t", seg("t"))), (grp_c(), OutIt::Mat("[+voice]", vec![(F_VOICE, true)]))] {
                    let after = (vec![], vec![st.clone(), ot.clone()]);
                    let before = (vec![ot.clone(), st.clone()], vec![]);
                    for e in [after, before] {
                        if matches!(ot, It::WordB) && false { continue; }
                        q7.push(BasicRule { input: i.clone(), output: o.clone(), context: vec![e.clone()], except: vec![] });
                        q7.push(BasicRule { input: i.clone(), output: o.clone(), context: vec![], except: vec![e.clone()] });
                    }
                }
            } }
            let inv: Vec<SegBits> = ["i", "a", "t"].iter().map(|t| seg(t)).collect();
            run_box(&mut r, "Q7: overlapping set alternatives with an item behind them, W({i,a,t},5)", q7, &word_space(&inv, 5));
        }
        // Q6: rewrites that make a segment equal to its neighbour. Environment-free rules look at no neighbour, so every segment is rewritten on its
        // own whether or not the results are equal: inventories with pairs one feature apart (t/d/k/ɡ for [+voice], i/e/a for [-hi]) and with
        // the IPA outputs themselves (t, i), on every word of up to 5 segments in every syllabification
        {
            let mut q6 = vec![];
            for (i, o) in io_pairs(false) { q6.push(BasicRule { input: i.clone(), output: o.clone(), context: vec![], except: vec![] }); }
            for i in [ipa("d"), ipa("k"), ipa("e"), It::Set(vec![ipa("t"), ipa("d")]), It::Set(vec![ipa("i"), ipa("e")])] { for o in out_items() { q6.push(BasicRule { input: i.clone(), output: o.clone(), context: vec![], except: vec![] }); } }
            q6.push(BasicRule { input: It::Set(vec![ipa("t"), ipa("d")]), output: OutIt::Set(vec![OutIt::Ipa("d", seg("d")), OutIt::Ipa("t", seg("t"))]), context: vec![], except: vec![] });
            q6.push(BasicRule { input: It::Set(vec![ipa("i"), ipa("e")]), output: OutIt::Set(vec![OutIt::Ipa("e", seg("e")), OutIt::Ipa("i", seg("i"))]), context: vec![], except: vec![] });
            let inv_a: Vec<SegBits> = ["t", "d", "k", "a"].iter().map(|t| seg(t)).collect();
            let inv_b: Vec<SegBits> = ["i", "e", "t", "ɡ"].iter().map(|t| seg(t)).collect();
            let mut ws = word_space(&inv_a, 5); ws.extend(word_space(&inv_b, 5));
            run_box(&mut r, "Q6: environment-free rules on words where a rewrite makes a segment equal to its neighbour, W({t,d,k,a},5) + W({i,e,t,ɡ},5)", q6, &ws);
        }
        // two items per side, for two IN/OUT pairs, on W(I3,4): every window of the c=2 shapes
        let w34 = word_space(&inventory(3), 4);
        let e2 = envs(2);
        let ins = seg_items(); let outs = out_items();
        let mut q2 = vec![];
        for (i, o) in [(ins[2].clone(), outs[1].clone()), (ins[5].clone(), outs[2].clone())] { for e in &e2 {
            q2.push(BasicRule { input: i.clone(), output: o.clone(), context: vec![e.clone()], except: vec![] });
            q2.push(BasicRule { input: i.clone(), output: o.clone(), context: vec![], except: vec![e.clone()] });
        } }
        run_box(&mut r, "Q2: c=2, context-only and exception-only, `a > i` and `C > [+voice]`, W(I3,4)", q2, &w34);
        // environment sets of two c=1 environments in BOTH orders (order must not matter), as context and as exception
        let e1s = envs(1);
        let mut q3 = vec![];
        for (i, o) in [(ins[2].clone(), outs[1].clone())] { for a in e1s.iter() { for b in e1s.iter() { if a == b { continue; }
            q3.push(BasicRule { input: i.clone(), output: o.clone(), context: vec![a.clone(), b.clone()], except: vec![] });
            q3.push(BasicRule { input: i.clone(), output: o.clone(), context: vec![], except: vec![a.clone(), b.clone()] });
        } } }
        run_box(&mut r, "Q3: environment sets of two c=1 environments, both orders, `a > i`, W(I3,4)", q3, &w34);
        // a context together with an exception (one item per side each): the two are matched independently, each with its own sides
        let mut q5 = vec![];
        for (i, o) in [(ins[2].clone(), outs[1].clone()), (ins[5].clone(), outs[2].clone())] { for c in &e1s { for x in &e1s {
            q5.push(BasicRule { input: i.clone(), output: o.clone(), context: vec![c.clone()], except: vec![x.clone()] });
        } } }
        run_box(&mut r, "Q5: context c=1 x exception c=1, `a > i` and `C > [+voice]`, W(I3,4)", q5, &w34);
        run_box(&mut r, "Q4: sets with boundary members as the outermost item of a side (alone and after one item), context / exception / both sides", boundary_set_rules(&ins, &outs), &w34);
    } else {
        let w35 = word_space(&inventory(3), 5);
        let e1 = envs(1);
        let e2 = envs(2);
        let io = io_pairs(true);
        let mut t1 = vec![]; let mut t3 = vec![];
        for (i, o) in &io { for e in &e2 {
            t1.push(BasicRule { input: i.clone(), output: o.clone(), context: vec![e.clone()], except: vec![] });
            t3.push(BasicRule { input: i.clone(), output: o.clone(), context: vec![], except: vec![e.clone()] });
        } }
        run_box(&mut r, "T1: context c=2, W(I3,5)", t1, &w35);
        run_box(&mut r, "T3: exception c=2, W(I3,5)", t3, &w35);
        let mut t2 = vec![];
        for (i, o) in &io { for c in &e1 { for x in &e1 {
            t2.push(BasicRule { input: i.clone(), output: o.clone(), context: vec![c.clone()], except: vec![x.clone()] });
        } } }
        run_box(&mut r, "T2: context c=1 x exception c=1, W(I4,4)", t2, &w44);
        let mut t4 = vec![];
        for (i, o) in &io { for (ai, a) in e1.iter().enumerate() { for (bi, b) in e1.iter().enumerate() { if ai == bi { continue; }
            t4.push(BasicRule { input: i.clone(), output: o.clone(), context: vec![a.clone(), b.clone()], except: vec![] });
            t4.push(BasicRule { input: i.clone(), output: o.clone(), context: vec![], except: vec![a.clone(), b.clone()] });
        } } }
        run_box(&mut r, "T4: environment sets of two c=1 ENVs as context / as exception, W(I4,4)", t4, &w44);
        // full IN/OUT table with c=1 as in quick
        let mut q = vec![];
        for (i, o) in io_pairs(false) { for e in &e1 {
            q.push(BasicRule { input: i.clone(), output: o.clone(), context: vec![e.clone()], except: vec![] });
            q.push(BasicRule { input: i.clone(), output: o.clone(), context: vec![], except: vec![e.clone()] });
        } }
        let w45 = word_space(&inventory(4), 5);
        run_box(&mut r, "T5: full IN/OUT table, c=1, W(I4,5)", q, &w45);
        // the property's word bound: up to 6 segments (I3), one item per side, reduced IN/OUT table
        let w36 = word_space(&inventory(3), 6);
        let mut t6 = vec![];
        for (i, o) in &io { for e in &e1 {
            t6.push(BasicRule { input: i.clone(), output: o.clone(), context: vec![e.clone()], except: vec![] });
            t6.push(BasicRule { input: i.clone(), output: o.clone(), context: vec![], except: vec![e.clone()] });
        } }
        run_box(&mut r, "T6: c=1 context / exception, W(I3,6)", t6, &w36);
        let ins = seg_items(); let outs = out_items();
        run_box(&mut r, "T7: sets with boundary members as the outermost item of a side, W(I4,5)", boundary_set_rules(&ins, &outs), &w45);
        // T8 (= Q6 one segment longer): rewrites that make a segment equal to its neighbour. Environment-free rules look at no neighbour, so every segment is rewritten on its
        // own whether or not the results are equal: inventories with pairs one feature apart (t/d/k/ɡ for [+voice], i/e/a for [-hi]) and with
        // the IPA outputs themselves (t, i), on every word of up to 5 segments in every syllabification
        {
            let mut q6 = vec![];
            for (i, o) in io_pairs(false) { q6.push(BasicRule { input: i.clone(), output: o.clone(), context: vec![], except: vec![] }); }
            for i in [ipa("d"), ipa("k"), ipa("e"), It::Set(vec![ipa("t"), ipa("d")]), It::Set(vec![ipa("i"), ipa("e")])] { for o in out_items() { q6.push(BasicRule { input: i.clone(), output: o.clone(), context: vec![], except: vec![] }); } }
            q6.push(BasicRule { input: It::Set(vec![ipa("t"), ipa("d")]), output: OutIt::Set(vec![OutIt::Ipa("d", seg("d")), OutIt::Ipa("t", seg("t"))]), context: vec![], except: vec![] });
            q6.push(BasicRule { input: It::Set(vec![ipa("i"), ipa("e")]), output: OutIt::Set(vec![OutIt::Ipa("e", seg("e")), OutIt::Ipa("i", seg("i"))]), context: vec![], except: vec![] });
            let inv_a: Vec<SegBits> = ["t", "d", "k", "a"].iter().map(|t| seg(t)).collect();
            let inv_b: Vec<SegBits> = ["i", "e", "t", "ɡ"].iter().map(|t| seg(t)).collect();
            let mut ws = word_space(&inv_a, 6); ws.extend(word_space(&inv_b, 6));
            run_box(&mut r, "T8: environment-free rules on words where a rewrite makes a segment equal to its neighbour, W({t,d,k,a},6) + W({i,e,t,ɡ},6)", q6, &ws);
        }
    }
    r.finish()
}

pub fn replay(case: &Value) -> Result<String, String> {
    let text = case["rule"].as_str().ok_or("no rule")?;
    let w = cw_from_json(&case["word"]).ok_or("compile-time case")?;
    let want = cw_from_json(&case["expected"]).ok_or("no expectation")?;
    let c = match guarded(5_000_000, || av::compile(&[group(&[text])])) { Out::Ok(Ok(c)) => c, o => return Err(format!("compile: {:?}", o.crash_desc())) };
    match guarded(budget_for(12, text.len()), || av::apply_group(&c, 0, word_of(&w)).map(|x| cw_of(&x))) {
        Out::Ok(Ok(g)) if g == want => Ok(format!("`{}` on /{}/ = /{}/ as the reference interpreter predicts", text, show_cw(&w), show_cw(&g))),
        Out::Ok(Ok(g)) => Err(format!("`{}` on /{}/: reference /{}/, asca /{}/", text, show_cw(&w), show_cw(&want), show_cw(&g))),
        Out::Ok(Err(e)) => Err(format!("error {:?}", e)),
        o => Err(o.crash_desc().unwrap()),
    }
}
