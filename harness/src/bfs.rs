//! Engine B: explicit-state breadth-first reachability over structural words. The
//! transition function is the real `Rule::apply` (one rule group per action); states are
//! deduplicated on the full structural word (nothing abstracted), every state gets the
//! state check, every edge the edge check; level-synchronous, deterministic (frontier and
//! successors are processed in index order; threads only evaluate).
use crate::util::*;
use asca::verif as av;
use std::cell::RefCell;
use std::collections::HashMap;

pub enum Step { Ok(CW), Err(String), Crash(String, String) }

thread_local! { static COMPILED: RefCell<HashMap<(usize, String), av::Compiled>> = RefCell::new(HashMap::new()); }

/// applies rule group `lines` (cached per thread) to a structural word
pub fn step(alphabet_id: usize, lines: &[String], w: &CW) -> Step {
    let key = (alphabet_id, lines.join("\n"));
    COMPILED.with(|c| {
        let mut c = c.borrow_mut();
        if !c.contains_key(&key) {
            let refs: Vec<&str> = lines.iter().map(|s| s.as_str()).collect();
            match guarded(1_000_000, || av::compile(&[group(&refs)])) {
                Out::Ok(Ok(x)) => { c.insert(key.clone(), x); }
                Out::Ok(Err(e)) => return Step::Err(format!("compile: {:?}", e)),
                o => return Step::Crash(o.crash_sig().unwrap(), o.crash_desc().unwrap()),
            }
        }
        let comp = c.get(&key).unwrap();
        let wl: usize = w.iter().map(|s| s.segs.len() + 1).sum();
        match guarded(budget_for(wl, key.1.chars().count()), || av::apply_group(comp, 0, word_of(w)).map(|x| cw_of(&x)).map_err(|e| format!("{:?}", e))) {
            Out::Ok(Ok(g)) => Step::Ok(g),
            Out::Ok(Err(e)) => Step::Err(e),
            o => Step::Crash(o.crash_sig().unwrap(), o.crash_desc().unwrap()),
        }
    })
}

pub struct Graph {
    pub states: Vec<CW>,
    /// (parent state, action) of the first (shortest) path; seeds have parent u32::MAX
    pub parent: Vec<(u32, u32)>,
    pub depth: Vec<u8>,
    pub transitions: u64,
    pub err_edges: u64,
    pub crash_edges: u64,
    pub pruned: u64,
    pub self_loops: u64,
    pub per_depth: Vec<usize>,
}

impl Graph {
    pub fn path(&self, mut s: u32) -> Vec<u32> {
        let mut acts = vec![];
        while self.parent[s as usize].0 != u32::MAX { acts.push(self.parent[s as usize].1); s = self.parent[s as usize].0; }
        acts.reverse();
        acts
    }
    pub fn root(&self, mut s: u32) -> u32 { while self.parent[s as usize].0 != u32::MAX { s = self.parent[s as usize].0; } s }
}

pub struct EdgeOut { pub from: u32, pub action: u32, pub step: Step }

/// `edge_check(from_state, action, step)` runs in the worker threads and returns violations.
pub fn explore(seeds: &[CW], actions: &[Vec<String>], alphabet_id: usize, max_depth: u8, max_segs: usize, max_sylls: usize,
               edge_check: &(dyn Fn(&CW, usize, &Step) -> Vec<Viol> + Sync), state_check: &(dyn Fn(&CW) -> Option<(String, String)> + Sync)) -> (Graph, Vec<(u32, Viol)>) {
    let mut g = Graph { states: vec![], parent: vec![], depth: vec![], transitions: 0, err_edges: 0, crash_edges: 0, pruned: 0, self_loops: 0, per_depth: vec![] };
    let mut index: HashMap<CW, u32> = HashMap::new();
    let mut viols: Vec<(u32, Viol)> = vec![];
    for s in seeds {
        if !index.contains_key(s) { index.insert(s.clone(), g.states.len() as u32); g.states.push(s.clone()); g.parent.push((u32::MAX, 0)); g.depth.push(0); }
    }
    let mut frontier: Vec<u32> = (0..g.states.len() as u32).collect();
    for (i, s) in g.states.iter().enumerate() { if let Some((k, d)) = state_check(s) { viols.push((i as u32, Viol { key: k, desc: d, case: serde_json::Value::Null })); } }
    g.per_depth.push(frontier.len());
    for d in 0..max_depth {
        let expandable: Vec<u32> = frontier.iter().copied().filter(|&s| {
            let w = &g.states[s as usize];
            let ok = w.len() <= max_sylls && w.iter().map(|x| x.segs.len()).sum::<usize>() <= max_segs;
            ok
        }).collect();
        g.pruned += (frontier.len() - expandable.len()) as u64;
        let n = expandable.len() * actions.len();
        let mut outs: Vec<(usize, Step, Vec<Viol>)> = Vec::with_capacity(n);
        {
            let states = &g.states;
            par_fold(n, 64, Vec::new, |i, acc: &mut Vec<(usize, Step, Vec<Viol>)>| {
                let from = expandable[i / actions.len()];
                let a = i % actions.len();
                let st = step(alphabet_id, &actions[a], &states[from as usize]);
                let v = edge_check(&states[from as usize], a, &st);
                acc.push((i, st, v));
            }, |a| outs.extend(a));
        }
        outs.sort_by_key(|x| x.0);
        let mut next = vec![];
        for (i, st, v) in outs {
            let from = expandable[i / actions.len()];
            let a = (i % actions.len()) as u32;
            g.transitions += 1;
            for x in v { viols.push((from, x)); }
            match st {
                Step::Ok(w) => {
                    if w == g.states[from as usize] { g.self_loops += 1; continue; }
                    if !index.contains_key(&w) {
                        let id = g.states.len() as u32;
                        if let Some((k, dsc)) = state_check(&w) { viols.push((id, Viol { key: k, desc: dsc, case: serde_json::Value::Null })); }
                        index.insert(w.clone(), id); g.states.push(w); g.parent.push((from, a)); g.depth.push(d + 1);
                        next.push(id);
                    }
                }
                Step::Err(_) => g.err_edges += 1,
                Step::Crash(..) => g.crash_edges += 1,
            }
        }
        g.per_depth.push(next.len());
        frontier = next;
        if frontier.is_empty() { break; }
    }
    (g, viols)
}
