//! Reference bit model of a segment, written from the rustdoc of `Segment` / `Place`
//! (layout `1111_11_11_111111_11`) and doc.md §Distinctive Features. Independent of the
//! accessors under test: it only reads and writes raw bits.
use crate::util::SegBits;

pub const PRES: [u16; 4] = [0x8000, 0x4000, 0x2000, 0x1000];
pub const OFF: [u32; 4] = [10, 8, 2, 0];
pub const WIDTH: [u16; 4] = [0x3, 0x3, 0x3f, 0x3];

/// (rule spelling, node 0 root 1 manner 2 laryngeal 3 lab 4 cor 5 dor 6 phr, mask)
pub const FEATS: [(&str, usize, u8); 26] = [
    ("cons", 0, 0b100), ("son", 0, 0b010), ("syll", 0, 0b001),
    ("cont", 1, 0x80), ("approx", 1, 0x40), ("lat", 1, 0x20), ("nasal", 1, 0x10),
    ("delrel", 1, 0x08), ("strid", 1, 0x04), ("rhotic", 1, 0x02), ("click", 1, 0x01),
    ("voice", 2, 0b100), ("sg", 2, 0b010), ("cg", 2, 0b001),
    ("labiodental", 3, 0b10), ("round", 3, 0b01),
    ("ant", 4, 0b10), ("dist", 4, 0b01),
    ("front", 5, 0b100000), ("back", 5, 0b010000), ("high", 5, 0b001000), ("low", 5, 0b000100), ("tense", 5, 0b000010), ("reduced", 5, 0b000001),
    ("atr", 6, 0b10), ("rtr", 6, 0b01),
];
pub const PLACE_NODES: [&str; 4] = ["lab", "cor", "dor", "phr"];

pub fn sub(place: Option<u16>, n: usize) -> Option<u8> {
    let x = place?;
    if x & PRES[n] != 0 { Some(((x >> OFF[n]) & WIDTH[n]) as u8) } else { None }
}
pub fn set_sub(place: Option<u16>, n: usize, v: Option<u8>) -> Option<u16> {
    let mut x = place.unwrap_or(0);
    x &= !(PRES[n] | (WIDTH[n] << OFF[n]));
    if let Some(v) = v { x |= PRES[n] | ((v as u16 & WIDTH[n]) << OFF[n]); }
    if x == 0 { None } else { Some(x) }
}
pub fn node(b: SegBits, ni: usize) -> Option<u8> {
    match ni { 0 => Some(b.0), 1 => Some(b.1), 2 => Some(b.2), k => sub(b.3, k - 3) }
}
pub fn set_node(b: SegBits, ni: usize, v: Option<u8>) -> SegBits {
    match ni {
        0 => (v.unwrap(), b.1, b.2, b.3),
        1 => (b.0, v.unwrap(), b.2, b.3),
        2 => (b.0, b.1, v.unwrap(), b.3),
        k => (b.0, b.1, b.2, set_sub(b.3, k - 3, v)),
    }
}
/// value of feature `fi`: None if its sub-node is absent
pub fn feat(b: SegBits, fi: usize) -> Option<bool> {
    let (_, ni, mask) = FEATS[fi];
    node(b, ni).map(|v| v & mask != 0)
}
/// doc: a positive feature of an absent sub-node creates it with its other features
/// negative; a negative feature of an absent sub-node does nothing.
pub fn set_feat(b: SegBits, fi: usize, val: bool) -> SegBits {
    let (_, ni, mask) = FEATS[fi];
    match (node(b, ni), val) {
        (Some(v), true) => set_node(b, ni, Some(v | mask)),
        (Some(v), false) => set_node(b, ni, Some(v & !mask)),
        (None, true) => set_node(b, ni, Some(mask)),
        (None, false) => b,
    }
}
/// `[+node]`: adds the sub-node with all features negative, keeps an existing one
pub fn add_node(b: SegBits, n: usize) -> SegBits {
    if sub(b.3, n).is_some() { b } else { (b.0, b.1, b.2, set_sub(b.3, n, Some(0))) }
}
pub fn del_node(b: SegBits, n: usize) -> SegBits { (b.0, b.1, b.2, set_sub(b.3, n, None)) }
pub fn well_formed(b: SegBits) -> Result<(), String> {
    if b.0 > 7 { return Err(format!("root byte {:#x} has bits outside the 3 defined features", b.0)); }
    if b.2 > 7 { return Err(format!("laryngeal byte {:#x} has bits outside the 3 defined features", b.2)); }
    if let Some(x) = b.3 {
        if x == 0 { return Err("place is Some(0): an empty place must be absent".into()); }
        if x & 0xF000 == 0 { return Err(format!("place {:#06x} has payload but no sub-node", x)); }
        for n in 0..4 {
            if x & PRES[n] == 0 && (x >> OFF[n]) & WIDTH[n] != 0 {
                return Err(format!("place {:#06x}: features stored for absent sub-node {}", x, PLACE_NODES[n]));
            }
        }
    }
    Ok(())
}
