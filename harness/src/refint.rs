//! Reference interpreter for the *basic fragment* (doc.md §The Basics, §Special Characters,
//! §Groupings, §Sets, §Environment Sets): one input element, one output element, optional
//! context, optional exception, each an environment or an environment set.
use crate::model;
use crate::util::*;

#[derive(Clone, Debug, PartialEq)]
pub enum It {
    Ipa(&'static str, SegBits),
    /// text, required (feature index, value) pairs
    Mat(&'static str, Vec<(usize, bool)>),
    Set(Vec<It>),
    SyllB,
    WordB,
}

impl It {
    pub fn text(&self) -> String {
        match self {
            It::Ipa(t, _) => t.to_string(),
            It::Mat(t, _) => t.to_string(),
            It::Set(v) => format!("{{{}}}", v.iter().map(|i| i.text()).collect::<Vec<_>>().join(",")),
            It::SyllB => "$".into(),
            It::WordB => "#".into(),
        }
    }
    pub fn matches_seg(&self, b: SegBits) -> bool {
        match self {
            It::Ipa(_, s) => *s == b,
            It::Mat(_, fs) => fs.iter().all(|(f, v)| model::feat(b, *f) == Some(*v)),
            It::Set(v) => v.iter().any(|i| i.matches_seg(b)),
            _ => false,
        }
    }
    /// index of the first set member that matches (sets are tried in order)
    pub fn set_index(&self, b: SegBits) -> Option<usize> {
        if let It::Set(v) = self { v.iter().position(|i| i.matches_seg(b)) } else { None }
    }
}

// feature indices in model::FEATS
pub const F_CONS: usize = 0; pub const F_SON: usize = 1; pub const F_SYLL: usize = 2;
pub const F_VOICE: usize = 11; pub const F_HIGH: usize = 20; pub const F_NASAL: usize = 6; pub const F_CONT: usize = 3;

pub fn ipa(t: &'static str) -> It { It::Ipa(t, seg(t)) }
pub fn grp_c() -> It { It::Mat("C", vec![(F_SYLL, false)]) }
pub fn grp_v() -> It { It::Mat("V", vec![(F_CONS, false), (F_SON, true), (F_SYLL, true)]) }

#[derive(Clone, Debug, PartialEq)]
pub enum OutIt {
    Ipa(&'static str, SegBits),
    Mat(&'static str, Vec<(usize, bool)>),
    Set(Vec<OutIt>),
}
impl OutIt {
    pub fn text(&self) -> String {
        match self {
            OutIt::Ipa(t, _) => t.to_string(),
            OutIt::Mat(t, _) => t.to_string(),
            OutIt::Set(v) => format!("{{{}}}", v.iter().map(|i| i.text()).collect::<Vec<_>>().join(",")),
        }
    }
    fn apply(&self, b: SegBits, set_idx: Option<usize>) -> SegBits {
        match self {
            OutIt::Ipa(_, s) => *s,
            OutIt::Mat(_, fs) => fs.iter().fold(b, |acc, (f, v)| model::set_feat(acc, *f, *v)),
            OutIt::Set(v) => v[set_idx.expect("set output needs set input")].apply(b, None),
        }
    }
}

pub type Env = (Vec<It>, Vec<It>);

#[derive(Clone, Debug)]
pub struct BasicRule {
    pub input: It,
    pub output: OutIt,
    /// empty = no context; one = plain; several = environment set
    pub context: Vec<Env>,
    pub except: Vec<Env>,
}

fn env_text(envs: &[Env]) -> String {
    let one = |e: &Env| format!("{} _ {}", e.0.iter().map(|i| i.text()).collect::<Vec<_>>().join(" "), e.1.iter().map(|i| i.text()).collect::<Vec<_>>().join(" ")).trim().to_string();
    if envs.len() == 1 { one(&envs[0]) } else { format!(":{{ {} }}:", envs.iter().map(one).collect::<Vec<_>>().join(", ")) }
}

impl BasicRule {
    pub fn text(&self) -> String {
        let mut s = format!("{} > {}", self.input.text(), self.output.text());
        if !self.context.is_empty() { s += &format!(" / {}", env_text(&self.context)); }
        if !self.except.is_empty() { s += &format!(" | {}", env_text(&self.except)); }
        s
    }
}

/// flat view: (segment, syllable index)
fn flatten(w: &CW) -> Vec<(SegBits, usize)> {
    w.iter().enumerate().flat_map(|(si, sy)| sy.segs.iter().map(move |s| (*s, si))).collect()
}

// A side of an environment matches if SOME choice of set alternatives makes every item match: a set alternative that matches where it stands
// but leaves the rest of the side unmatched does not rule out the alternatives after it (boundary members are zero-width)
fn before_rec(items: &[It], flat: &[(SegBits, usize)], k: isize) -> bool {
    // items are consumed from the END (nearest the target first); k = index of the nearest unmatched segment to the left
    let Some((it, rest)) = items.split_last() else { return true };
    let at_bound = |k: isize| k < 0 || flat[k as usize].1 != flat[(k + 1) as usize].1;
    match it {
        It::WordB => k < 0 && before_rec(rest, flat, k),
        It::SyllB => at_bound(k) && before_rec(rest, flat, k),
        It::Set(v) => v.iter().any(|m| match m {
            It::WordB => k < 0 && before_rec(rest, flat, k),
            It::SyllB => at_bound(k) && before_rec(rest, flat, k),
            sm => k >= 0 && sm.matches_seg(flat[k as usize].0) && before_rec(rest, flat, k - 1),
        }),
        seg_it => k >= 0 && seg_it.matches_seg(flat[k as usize].0) && before_rec(rest, flat, k - 1),
    }
}
fn before_matches(items: &[It], flat: &[(SegBits, usize)], j: usize) -> bool { before_rec(items, flat, j as isize - 1) }
fn after_rec(items: &[It], flat: &[(SegBits, usize)], k: usize) -> bool {
    let Some((it, rest)) = items.split_first() else { return true };
    let n = flat.len();
    let at_bound = |k: usize| k >= n || flat[k].1 != flat[k - 1].1;
    match it {
        It::WordB => k >= n && after_rec(rest, flat, k),
        It::SyllB => at_bound(k) && after_rec(rest, flat, k),
        It::Set(v) => v.iter().any(|m| match m {
            It::WordB => k >= n && after_rec(rest, flat, k),
            It::SyllB => at_bound(k) && after_rec(rest, flat, k),
            sm => k < n && sm.matches_seg(flat[k].0) && after_rec(rest, flat, k + 1),
        }),
        seg_it => k < n && seg_it.matches_seg(flat[k].0) && after_rec(rest, flat, k + 1),
    }
}
fn after_matches(items: &[It], flat: &[(SegBits, usize)], j: usize) -> bool { after_rec(items, flat, j + 1) }
fn env_matches(e: &Env, flat: &[(SegBits, usize)], j: usize) -> bool {
    before_matches(&e.0, flat, j) && after_matches(&e.1, flat, j)
}

pub enum RefOut { Word(CW, /*fired*/ u32), SkipAdjacentEqual }

// ---- words with long segments: a run of equal segments inside a syllable is ONE segment (doc.md §Length). An input item matches the run as a
// whole; a plain IPA output replaces it by one short segment, a matrix output changes every copy and keeps the length; in an environment a
// matrix / group item stands for the whole run. What a plain IPA *environment* item does on a long segment is not documented (the
// implementation steps over one copy): such cases are ambiguous and skipped.

/// (segment, syllable index, copies)
type Run = (SegBits, usize, usize);
fn runs_of(w: &CW) -> Vec<Run> {
    let mut v: Vec<Run> = vec![];
    for (si, sy) in w.iter().enumerate() {
        let mut i = 0;
        while i < sy.segs.len() { let mut j = i + 1; while j < sy.segs.len() && sy.segs[j] == sy.segs[i] { j += 1; } v.push((sy.segs[i], si, j - i)); i = j; }
    }
    v
}
fn word_of_runs(w: &CW, runs: &[Run]) -> CW {
    let mut out: CW = w.iter().map(|sy| CSyl { segs: vec![], stress: sy.stress, tone: sy.tone }).collect();
    for (b, si, n) in runs { for _ in 0..*n { out[*si].segs.push(*b); } }
    out
}
/// Some(matched) or None when an IPA item (or an IPA member of a set) is tried on a long run
fn item_on_run(it: &It, r: &Run) -> Option<bool> {
    match it {
        It::Ipa(_, s) => if r.2 > 1 { None } else { Some(*s == r.0) },
        It::Mat(..) => Some(it.matches_seg(r.0)),
        It::Set(v) => { for m in v { match m { It::SyllB | It::WordB => {} sm => { if item_on_run(sm, r)? { return Some(true); } } } } Some(false) }
        _ => Some(false),
    }
}
/// three-valued "and then": a definite mismatch decides, an undefined item makes the whole undefined, otherwise the rest decides
fn then3(first: Option<bool>, rest: impl FnOnce() -> Option<bool>) -> Option<bool> { match first { Some(false) => Some(false), None => None, Some(true) => rest() } }
/// three-valued "any": a definite match decides; otherwise undefined if some alternative was undefined
fn any3(alts: impl Iterator<Item = Option<bool>>) -> Option<bool> { let mut undef = false; for a in alts { match a { Some(true) => return Some(true), None => undef = true, _ => {} } } if undef { None } else { Some(false) } }
fn before_rec_runs(items: &[It], flat: &[Run], k: isize) -> Option<bool> {
    let Some((it, rest)) = items.split_last() else { return Some(true) };
    let at_bound = |k: isize| k < 0 || flat[k as usize].1 != flat[(k + 1) as usize].1;
    match it {
        It::WordB => then3(Some(k < 0), || before_rec_runs(rest, flat, k)),
        It::SyllB => then3(Some(at_bound(k)), || before_rec_runs(rest, flat, k)),
        It::Set(v) => any3(v.iter().map(|m| match m {
            It::WordB => then3(Some(k < 0), || before_rec_runs(rest, flat, k)),
            It::SyllB => then3(Some(at_bound(k)), || before_rec_runs(rest, flat, k)),
            sm => if k < 0 { Some(false) } else { then3(item_on_run(sm, &flat[k as usize]), || before_rec_runs(rest, flat, k - 1)) },
        })),
        seg_it => if k < 0 { Some(false) } else { then3(item_on_run(seg_it, &flat[k as usize]), || before_rec_runs(rest, flat, k - 1)) },
    }
}
fn before_matches_runs(items: &[It], flat: &[Run], j: usize) -> Option<bool> { before_rec_runs(items, flat, j as isize - 1) }
fn after_rec_runs(items: &[It], flat: &[Run], k: usize) -> Option<bool> {
    let Some((it, rest)) = items.split_first() else { return Some(true) };
    let n = flat.len();
    let at_bound = |k: usize| k >= n || flat[k].1 != flat[k - 1].1;
    match it {
        It::WordB => then3(Some(k >= n), || after_rec_runs(rest, flat, k)),
        It::SyllB => then3(Some(at_bound(k)), || after_rec_runs(rest, flat, k)),
        It::Set(v) => any3(v.iter().map(|m| match m {
            It::WordB => then3(Some(k >= n), || after_rec_runs(rest, flat, k)),
            It::SyllB => then3(Some(at_bound(k)), || after_rec_runs(rest, flat, k)),
            sm => if k >= n { Some(false) } else { then3(item_on_run(sm, &flat[k]), || after_rec_runs(rest, flat, k + 1)) },
        })),
        seg_it => if k >= n { Some(false) } else { then3(item_on_run(seg_it, &flat[k]), || after_rec_runs(rest, flat, k + 1)) },
    }
}
fn after_matches_runs(items: &[It], flat: &[Run], j: usize) -> Option<bool> { after_rec_runs(items, flat, j + 1) }
fn any_env_runs(envs: &[Env], flat: &[Run], j: usize) -> Option<bool> {
    // every environment is evaluated, so that an ambiguous one is never hidden behind an earlier match
    let mut any = false;
    for e in envs { let b = before_matches_runs(&e.0, flat, j)?; let a = after_matches_runs(&e.1, flat, j)?; if b && a { any = true; } }
    Some(any)
}

/// the same scan over runs; `SkipAdjacentEqual` now means: ambiguous (an IPA environment item on a long segment, or two equal
/// neighbours created by the rewrite)
pub fn apply_basic_runs(r: &BasicRule, w: &CW) -> RefOut {
    let mut flat = runs_of(w);
    let mut fired = 0;
    for j in 0..flat.len() {
        let b = flat[j].0;
        if !r.input.matches_seg(b) { continue; }
        let Some(ctx) = any_env_runs(&r.context, &flat, j) else { return RefOut::SkipAdjacentEqual };
        let ctx_ok = r.context.is_empty() || ctx;
        let Some(exc) = any_env_runs(&r.except, &flat, j) else { return RefOut::SkipAdjacentEqual };
        if ctx_ok && !exc {
            let out = match &r.output { OutIt::Set(v) => &v[r.input.set_index(b).expect("set output needs set input")], o => o };
            let (nb, nl) = match out { OutIt::Ipa(_, s) => (*s, 1), o => (o.apply(b, None), flat[j].2) };
            if (nb, nl) != (b, flat[j].2) { fired += 1; }
            flat[j].0 = nb; flat[j].2 = nl;
            // equal neighbours inside a syllable would merge into one longer segment: what an environment item then sees is not documented.
            // A rule without context and exception looks at no neighbour: every segment of the word is rewritten on its own (the property's
            // wording), whether or not the results happen to be equal
            if !(r.context.is_empty() && r.except.is_empty()) {
                if j > 0 && flat[j - 1].1 == flat[j].1 && flat[j - 1].0 == nb { return RefOut::SkipAdjacentEqual; }
                if j + 1 < flat.len() && flat[j + 1].1 == flat[j].1 && flat[j + 1].0 == nb { return RefOut::SkipAdjacentEqual; }
            }
        }
    }
    RefOut::Word(word_of_runs(w, &flat), fired)
}

/// Scan left to right; left context is read from the already rewritten prefix, right
/// context from the not yet rewritten suffix; boundaries, stress, tone untouched.
pub fn apply_basic(r: &BasicRule, w: &CW) -> RefOut {
    if has_adjacent_equal(w) { return RefOut::SkipAdjacentEqual; }
    let mut cur = w.clone();
    let mut flat = flatten(&cur);
    let mut fired = 0;
    for j in 0..flat.len() {
        let b = flat[j].0;
        if !r.input.matches_seg(b) { continue; }
        let ctx_ok = r.context.is_empty() || r.context.iter().any(|e| env_matches(e, &flat, j));
        let exc = r.except.iter().any(|e| env_matches(e, &flat, j));
        if ctx_ok && !exc {
            let nb = r.output.apply(b, r.input.set_index(b));
            flat[j].0 = nb;
            // write back
            let mut k = 0;
            'o: for sy in cur.iter_mut() { for s in sy.segs.iter_mut() { if k == j { *s = nb; break 'o; } k += 1; } }
            fired += 1;
            if has_adjacent_equal(&cur) && !(r.context.is_empty() && r.except.is_empty()) { return RefOut::SkipAdjacentEqual; }
        }
    }
    RefOut::Word(cur, fired)
}
