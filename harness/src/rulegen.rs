//! Finite rule grammar: every rule of the documented grammar with at most n items, drawn
//! from fixed item alphabets per slot. A rule has an index in the enumeration, so a case
//! is replayable by (n, index) or simply by its text.

#[derive(Clone, Debug, PartialEq)]
pub struct GenRule {
    /// comma alternatives of the input (condensed rules have several)
    pub ins: Vec<Vec<&'static str>>,
    pub outs: Vec<Vec<&'static str>>,
    /// environments of the context: (before, after); `ctx_set` = written as `:{ .. }:`
    pub ctx: Vec<(Vec<&'static str>, Vec<&'static str>)>,
    pub ctx_set: bool,
    pub exc: Vec<(Vec<&'static str>, Vec<&'static str>)>,
    pub exc_set: bool,
    /// special environment `_,X`
    pub special: Option<Vec<&'static str>>,
}

pub const IN_ITEMS: [&str; 19] = ["a", "t", "C", "V", "[+cons]", "[]", "[αvoice]", "V:[+long]", "a:[-long]", "{p,a}", "{%,C}", "%", "%:[+stress]", "$", "⟨CV⟩", "⟨C...⟩", "C=1", "%=1", "⟨..V⟩=1"];
pub const IN_LATE: [&str; 2] = ["...", "1"]; // only after a first item
pub const OUT_ITEMS: [&str; 17] = ["i", "t", "[+voice]", "[-hi]", "[αvoice]", "[+long]", "[-long]", "[+stress]", "[tone:5]", "1", "{t,i}", "$", "%", "⟨ta⟩", "i:[+long]", "[-place]", "[+sec.stress, tone:51]"];
pub const OUT_SOLO: [&str; 2] = ["*", "&"];
pub const ENV_ITEMS: [&str; 22] = ["a", "t", "C", "V", "[+cons]", "[]", "[αvoice]", "V:[+long]", "{p,a}", "%", "%:[+stress]", "$", "⟨CV⟩", "⟨C...⟩", "C=1", "%=1", "(C)", "(C,0)", "(C,1:2)", "([],0)", "...", "1"];

impl GenRule {
    pub fn text(&self) -> String {
        let side = |v: &Vec<&str>| v.join(" ");
        let alts = |v: &Vec<Vec<&str>>| v.iter().map(side).collect::<Vec<_>>().join(", ");
        let env = |e: &(Vec<&str>, Vec<&str>)| format!("{} _ {}", side(&e.0), side(&e.1)).trim().to_string();
        let envs = |v: &Vec<(Vec<&str>, Vec<&str>)>, set: bool| {
            let body = v.iter().map(env).collect::<Vec<_>>().join(", ");
            if set { format!(":{{ {} }}:", body) } else { body }
        };
        let mut s = format!("{} > {}", alts(&self.ins), alts(&self.outs));
        if let Some(x) = &self.special { s += &format!(" / _,{}", side(x)); }
        else if !self.ctx.is_empty() { s += &format!(" / {}", envs(&self.ctx, self.ctx_set)); }
        if !self.exc.is_empty() { s += &format!(" | {}", envs(&self.exc, self.exc_set)); }
        s
    }
    pub fn n_items(&self) -> usize {
        let e = |v: &Vec<(Vec<&str>, Vec<&str>)>| v.iter().map(|x| x.0.len() + x.1.len()).sum::<usize>();
        self.ins.iter().map(|v| v.len()).sum::<usize>() + self.outs.iter().map(|v| v.len()).sum::<usize>() + e(&self.ctx) + e(&self.exc) + self.special.as_ref().map(|v| v.len()).unwrap_or(0)
    }
    pub fn is_insertion(&self) -> bool { self.ins.iter().any(|v| v == &vec!["*"]) }
    pub fn has(&self, needles: &[&str]) -> bool { let t = self.text(); needles.iter().any(|n| t.contains(n)) }
}

fn seqs(alpha: &[&'static str], late: &[&'static str], len: usize) -> Vec<Vec<&'static str>> {
    let mut out: Vec<Vec<&'static str>> = vec![vec![]];
    for pos in 0..len {
        let mut next = vec![];
        for s in &out {
            for a in alpha { let mut t = s.clone(); t.push(*a); next.push(t); }
            if pos > 0 { for a in late {
                // an ellipsis needs something after it too
                if *a == "..." && pos == len - 1 { continue; }
                let mut t = s.clone(); t.push(*a); next.push(t);
            } }
        }
        out = next;
    }
    out
}
fn env_sides(len_b: usize, len_a: usize) -> Vec<(Vec<&'static str>, Vec<&'static str>)> {
    // `...` and optionals may stand anywhere in an environment; `#` only outermost
    let mk = |len: usize, before: bool| -> Vec<Vec<&'static str>> {
        if len == 0 { return vec![vec![]]; }
        let mut v = seqs(&ENV_ITEMS, &[], len);
        let inner = seqs(&ENV_ITEMS, &[], len - 1);
        for s in inner { let mut t = s.clone(); if before { t.insert(0, "#"); } else { t.push("#"); } v.push(t); }
        v
    };
    let mut out = vec![];
    for b in mk(len_b, true) { for a in mk(len_a, false) { out.push((b.clone(), a.clone())); } }
    out
}
fn envs_of_size(k: usize) -> Vec<(Vec<&'static str>, Vec<&'static str>)> {
    let mut v = vec![];
    for lb in 0..=k { v.extend(env_sides(lb, k - lb)); }
    v
}

fn envs_cached(k: usize) -> &'static Vec<(Vec<&'static str>, Vec<&'static str>)> {
    static C: [std::sync::OnceLock<Vec<(Vec<&'static str>, Vec<&'static str>)>>; 4] = [std::sync::OnceLock::new(), std::sync::OnceLock::new(), std::sync::OnceLock::new(), std::sync::OnceLock::new()];
    C[k].get_or_init(|| envs_of_size(k))
}

/// input/output skeletons of the rules with exactly `n` items: (skeleton, items left for environments)
pub fn bases_of_size(n: usize) -> Vec<(GenRule, usize)> {
    let base = |ins: Vec<Vec<&'static str>>, outs: Vec<Vec<&'static str>>| GenRule { ins, outs, ctx: vec![], ctx_set: false, exc: vec![], exc_set: false, special: None };
    let mut ios: Vec<(GenRule, usize)> = vec![];
    for li in 1..n {
        for lo in 1..=(n - li) {
            let rest = n - li - lo;
            let ins = seqs(&IN_ITEMS, &IN_LATE, li);
            let outs = seqs(&OUT_ITEMS, &[], lo);
            for i in &ins { for o in &outs { ios.push((base(vec![i.clone()], vec![o.clone()]), rest)); } }
            if lo == 1 { for i in &ins { for o in OUT_SOLO { ios.push((base(vec![i.clone()], vec![vec![o]]), rest)); } } }
            if li == 1 { for o in &outs { ios.push((base(vec![vec!["*"]], vec![o.clone()]), rest)); } }
        }
    }
    // condensed: two single-item inputs and/or two single-item outputs
    if n >= 3 {
        let i1 = seqs(&IN_ITEMS, &[], 1);
        let o1 = seqs(&OUT_ITEMS, &[], 1);
        for a in &i1 { for b in &i1 { for o in &o1 { ios.push((base(vec![a.clone(), b.clone()], vec![o.clone()]), n - 3)); } } }
        for a in &i1 { for o in &o1 { for p in &o1 { ios.push((base(vec![a.clone()], vec![o.clone(), p.clone()]), n - 3)); } } }
        if n >= 4 { for a in &i1 { for b in &i1 { for o in &o1 { for p in &o1 { ios.push((base(vec![a.clone(), b.clone()], vec![o.clone(), p.clone()]), n - 4)); } } } } }
    }
    ios
}

/// all environment decorations of a skeleton using exactly `rest` items
pub fn expand(r: &GenRule, rest: usize) -> Vec<GenRule> {
    let mut out = vec![];
    if rest == 0 { out.push(r.clone()); return out; }
    for e in envs_cached(rest) {
        let mut c = r.clone(); c.ctx = vec![e.clone()]; out.push(c);
        let mut x = r.clone(); x.exc = vec![e.clone()]; out.push(x);
    }
    for x in seqs(&ENV_ITEMS, &[], rest) { let mut s = r.clone(); s.special = Some(x); out.push(s); }
    if rest >= 2 {
        for k in 1..rest {
            for e1 in envs_cached(k) { for e2 in envs_cached(rest - k) {
                let mut b = r.clone(); b.ctx = vec![e1.clone()]; b.exc = vec![e2.clone()]; out.push(b);
                let mut s = r.clone(); s.ctx = vec![e1.clone(), e2.clone()]; s.ctx_set = true; out.push(s);
                let mut t = r.clone(); t.exc = vec![e1.clone(), e2.clone()]; t.exc_set = true; out.push(t);
                let mut u = r.clone(); u.ctx = vec![e1.clone(), e2.clone()]; out.push(u); // condensed environments
            } }
        }
    }
    out
}

/// skeletons of all rules with 2..=n items
pub fn bases_upto(n: usize) -> Vec<(GenRule, usize)> { (2..=n).flat_map(bases_of_size).collect() }

pub fn rules_of_size(n: usize) -> Vec<GenRule> { bases_of_size(n).iter().flat_map(|(b, r)| expand(b, *r)).collect() }

pub fn rulegen(n: usize) -> Vec<GenRule> {
    (2..=n).flat_map(rules_of_size).collect()
}

/// hand-shaped words: 1-3 syllables, long and overlong, geminate across a boundary,
/// stress, tones, clicks, americanist, single segment
pub const WC: [&str; 28] = [
    "taːp", "paːt.a", "taːːpat",
    "a", "t", "pa", "ta.pa", "ˈta.pa", "pat", "ap.ta", "taː", "taːː", "tat.ta", "ˈpa.taˌka", "pa5", "pa51.ta1234",
    "ˈpaː.ta", "a.a", "tː", "ŋǃa", "ła.ta", "kat.pa.ta", "at", "i.a", "ˌtaˈpat", "pʰa.tʼi", "s", "an.ta3",
];
